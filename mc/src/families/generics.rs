//! C07: generic code behaves identically at every instantiation and is fully specialised.

use crate::drive::*;
use crate::families::common::*;
use crate::ug::ast::*;
use crate::ug::build::*;
use serde_json::{Value, json};

pub const TYARGS: [&str; 13] =
    ["int32", "bool", "string", "unit", "(int32,bool)", "[int32;2]", "Vec[int32]", "Ref[int32]", "(int32)->int32", "S", "E2", "Opt[int32]", "Opt[Opt[bool]]"];
pub const TEMPLATES: [&str; 32] =
    ["permuted-struct-params", "self-recursion-permuted", "uninferable-fn-param", "uninferable-method-param", "uninferable-impl-param", "method-own-param", "under-vec", "under-ref", "under-array", "under-tuple", "under-opt", "under-box", "under-vec-ref", "under-ref-vec", "return-only-param", "zero-arg-generic", "swapped-params", "vec-generic", "ref-generic", "array-generic", "id", "pair", "apply", "opt-unwrap", "box-method", "trait-dispatch", "generic-calls-generic", "recursive-list", "two-bounds", "two-instances", "generic-fn-value", "nested-instantiation"];

fn opt(t: Ty) -> Ty {
    Ty::Named("Opt".into(), vec![t])
}

fn ty_of(name: &str) -> Ty {
    match name {
        "int32" => Ty::i32(),
        "bool" => Ty::Bool,
        "string" => Ty::Str,
        "unit" => Ty::Unit,
        "(int32,bool)" => tuple_ib(),
        "[int32;2]" => Ty::Array(2, Box::new(Ty::i32())),
        "Vec[int32]" => Ty::Vec(Box::new(Ty::i32())),
        "Ref[int32]" => Ty::Ref(Box::new(Ty::i32())),
        "(int32)->int32" => Ty::Fn(vec![Ty::i32()], Box::new(Ty::i32())),
        "S" => Ty::named("S"),
        "E2" => Ty::named("E2"),
        "Opt[int32]" => opt(Ty::i32()),
        _ => opt(opt(Ty::Bool)),
    }
}

struct Cx {
    n: Names,
    items: Vec<Item>,
    pre: Vec<Stmt>,
}

/// a value of the type (may add setup statements)
fn value(cx: &mut Cx, name: &str, k: i128) -> E {
    match name {
        "int32" => int(40 + k),
        "bool" => E::Bool(k % 2 == 0),
        "string" => s(&format!("str{}", k)),
        "unit" => E::Unit,
        "(int32,bool)" => E::Tuple(vec![int(k), E::Bool(true)]),
        "[int32;2]" => E::Array(vec![int(k), int(k + 1)]),
        "Vec[int32]" => {
            let w = cx.n.fresh("w");
            cx.pre.push(let_t(w, Ty::Vec(Box::new(Ty::i32())), bi("vec_new", vec![])));
            bi("vec_push", vec![bi("vec_push", vec![v(w), int(k)]), int(k + 5)])
        }
        "Ref[int32]" => bi("ref", vec![int(k + 60)]),
        "(int32)->int32" => {
            // a top-level function used as a value (closures flowing as values are C08's business)
            let _ = k;
            E::FnRef("incr".into(), vec![])
        }
        "S" => E::StructLit("S".into(), vec![("a".into(), int(k + 70))], vec![]),
        "E2" => E::Ctor("E2".into(), "Y".into(), false, vec![E::Bool(k % 2 == 1)], vec![]),
        "Opt[int32]" => E::Ctor("Opt".into(), "Som".into(), false, vec![int(k + 80)], vec![Ty::i32()]),
        _ => E::Ctor("Opt".into(), "Som".into(), false, vec![E::Ctor("Opt".into(), "Som".into(), false, vec![E::Bool(true)], vec![Ty::Bool])], vec![opt(Ty::Bool)]),
    }
}

fn render(name: &str, e: E) -> E {
    match name {
        "int32" => i2s(e),
        "bool" => bi("bool_to_string", vec![e]),
        "string" => e,
        "unit" => bi("unit_to_string", vec![e]),
        "(int32,bool)" => call("strPair", vec![e]),
        "[int32;2]" => call("strArr", vec![e]),
        "Vec[int32]" => call("strVec", vec![e]),
        "Ref[int32]" => i2s(bi("ref_get", vec![e])),
        "(int32)->int32" => call("strFn", vec![e]),
        "S" => call("strS", vec![e]),
        "E2" => call("strE2", vec![e]),
        "Opt[int32]" => call("strOptI", vec![e]),
        _ => call("strOptOpt", vec![e]),
    }
}

fn base_items(n: &mut Names) -> Vec<Item> {
    let mut items = vec![
        Item::Struct(StructDef { name: "S".into(), generics: vec![], fields: vec![("a".into(), Ty::i32())], derives: vec![] }),
        Item::Enum(EnumDef { name: "E2".into(), generics: vec![], variants: vec![("X".into(), vec![]), ("Y".into(), vec![Ty::Bool])], derives: vec![] }),
        Item::Enum(EnumDef { name: "Opt".into(), generics: vec!["T".into()], variants: vec![("Non".into(), vec![]), ("Som".into(), vec![Ty::Param("T".into())])], derives: vec![] }),
    ];
    let mut f = |name: &str, t: Ty, body: &dyn Fn(VarId, &mut Names) -> E, n: &mut Names| {
        let x = n.fresh("x");
        let b = body(x, n);
        fn_def(name, vec![(x, t)], Some(Ty::Str), b)
    };
    {
        let q = n.fresh("q");
        items.push(fn_def("incr", vec![(q, Ty::i32())], Some(Ty::i32()), add(v(q), int(1))));
    }
    items.push(f("strPair", tuple_ib(), &|x, _| add(add(i2s(E::Proj(Box::new(v(x)), 0)), s(",")), bi("bool_to_string", vec![E::Proj(Box::new(v(x)), 1)])), n));
    items.push(f("strArr", Ty::Array(2, Box::new(Ty::i32())), &|x, _| add(add(i2s(bi("array_get", vec![v(x), int(0)])), s(";")), i2s(bi("array_get", vec![v(x), int(1)]))), n));
    items.push(f("strVec", Ty::Vec(Box::new(Ty::i32())), &|x, _| add(add(i2s(bi("vec_len", vec![v(x)])), s(":")), i2s(bi("vec_get", vec![v(x), int(0)]))), n));
    items.push(f("strFn", Ty::Fn(vec![Ty::i32()], Box::new(Ty::i32())), &|x, _| i2s(E::Call(Box::new(v(x)), vec![int(3)])), n));
    items.push(f("strS", Ty::named("S"), &|x, _| add(s("S"), i2s(E::Field(Box::new(v(x)), "a".into()))), n));
    items.push(f(
        "strE2",
        Ty::named("E2"),
        &|x, n| {
            let b = n.fresh("b");
            E::Match(
                Box::new(v(x)),
                vec![
                    (Pat::Ctor("E2".into(), "X".into(), false, vec![]), s("X")),
                    (Pat::Ctor("E2".into(), "Y".into(), false, vec![Pat::Var(b)]), add(s("Y"), bi("bool_to_string", vec![v(b)]))),
                ],
            )
        },
        n,
    ));
    items.push(f(
        "strOptI",
        opt(Ty::i32()),
        &|x, n| {
            let b = n.fresh("b");
            E::Match(
                Box::new(v(x)),
                vec![
                    (Pat::Ctor("Opt".into(), "Non".into(), false, vec![]), s("Non")),
                    (Pat::Ctor("Opt".into(), "Som".into(), false, vec![Pat::Var(b)]), add(s("Som"), i2s(v(b)))),
                ],
            )
        },
        n,
    ));
    items.push(f(
        "strOptOpt",
        opt(opt(Ty::Bool)),
        &|x, n| {
            let b = n.fresh("b");
            E::Match(
                Box::new(v(x)),
                vec![
                    (Pat::Ctor("Opt".into(), "Non".into(), false, vec![]), s("Non")),
                    (
                        Pat::Ctor("Opt".into(), "Som".into(), false, vec![Pat::Ctor("Opt".into(), "Som".into(), false, vec![Pat::Var(b)])]),
                        add(s("SomSom"), bi("bool_to_string", vec![v(b)])),
                    ),
                    (Pat::Wild, s("SomNon")),
                ],
            )
        },
        n,
    ));
    items
}

fn gfn(name: &str, generics: &[&str], bounds: Vec<(String, Vec<String>)>, params: Vec<(VarId, Ty)>, ret: Ty, body: E) -> Item {
    Item::Fn(FnDef { name: name.into(), generics: generics.iter().map(|g| g.to_string()).collect(), bounds, params, ret: Some(ret), body })
}

fn tp(n: &str) -> Ty {
    Ty::Param(n.into())
}

pub fn build(template: &str, a: &str, b: &str) -> Option<Program> {
    let mut cx = Cx { n: Names::new(), items: Vec::new(), pre: Vec::new() };
    cx.items = base_items(&mut cx.n);
    let (ta, tb) = (ty_of(a), ty_of(b));
    let mut body: Vec<Stmt> = Vec::new();
    let show = |name: &str, e: E| st(println(render(name, e)));
    match template {
        t if t.starts_with("under-") => {
            // the type parameter occurs in the signature only underneath a type constructor; the function
            // is instantiated at `a` and at a second type, and each call site must get its own instance
            let c = if a == "string" { "int32" } else { "string" };
            let tc = ty_of(c);
            let wrap = |inner: Ty| -> Ty {
                match t {
                    "under-vec" => Ty::Vec(Box::new(inner)),
                    "under-ref" => Ty::Ref(Box::new(inner)),
                    "under-array" => Ty::Array(2, Box::new(inner)),
                    "under-tuple" => Ty::Tuple(vec![inner, Ty::i32()]),
                    "under-opt" => opt(inner),
                    "under-box" => Ty::Named("Bx".into(), vec![inner]),
                    "under-vec-ref" => Ty::Vec(Box::new(Ty::Ref(Box::new(inner)))),
                    _ => Ty::Ref(Box::new(Ty::Vec(Box::new(inner)))),
                }
            };
            if t == "under-box" {
                cx.items.push(Item::Struct(StructDef { name: "Bx".into(), generics: vec!["T".into()], fields: vec![("v".into(), tp("T")), ("k".into(), Ty::i32())], derives: vec![] }));
            }
            let x = cx.n.fresh("x");
            let y = cx.n.fresh("y");
            // a T-independent int32 computed from the argument
            let mut stmts = vec![st(println(s("in-probe")))];
            let tail: E = match t {
                "under-vec" | "under-vec-ref" => bi("vec_len", vec![v(x)]),
                "under-ref" => {
                    stmts.push(let_(y, bi("ref_get", vec![v(x)])));
                    int(7)
                }
                "under-array" => {
                    stmts.push(let_(y, bi("array_get", vec![v(x), int(1)])));
                    int(8)
                }
                "under-tuple" => E::Proj(Box::new(v(x)), 1),
                "under-opt" => E::Match(Box::new(v(x)), vec![(Pat::Ctor("Opt".into(), "Som".into(), false, vec![Pat::Wild]), int(1)), (Pat::Ctor("Opt".into(), "Non".into(), false, vec![]), int(0))]),
                "under-box" => E::Field(Box::new(v(x)), "k".into()),
                _ => bi("vec_len", vec![bi("ref_get", vec![v(x)])]),
            };
            cx.items.push(gfn("probe", &["T"], vec![], vec![(x, wrap(tp("T")))], Ty::i32(), block(stmts, Some(tail))));
            for (tyname, tyv, k) in [(a, ta.clone(), 1i128), (c, tc.clone(), 2), (a, ta.clone(), 3)] {
                let val = value(&mut cx, tyname, k);
                let arg: E = match t {
                    "under-vec" => {
                        let w = cx.n.fresh("w");
                        body.push(let_t(w, Ty::Vec(Box::new(tyv.clone())), bi("vec_new", vec![])));
                        bi("vec_push", vec![v(w), val])
                    }
                    "under-ref" => bi("ref", vec![val]),
                    "under-array" => {
                        let val2 = value(&mut cx, tyname, k + 10);
                        E::Array(vec![val, val2])
                    }
                    "under-tuple" => E::Tuple(vec![val, int(k)]),
                    "under-opt" => E::Ctor("Opt".into(), "Som".into(), false, vec![val], vec![tyv.clone()]),
                    "under-box" => E::StructLit("Bx".into(), vec![("v".into(), val), ("k".into(), int(k))], vec![tyv.clone()]),
                    "under-vec-ref" => {
                        let w = cx.n.fresh("w");
                        body.push(let_t(w, Ty::Vec(Box::new(Ty::Ref(Box::new(tyv.clone())))), bi("vec_new", vec![])));
                        bi("vec_push", vec![v(w), bi("ref", vec![val])])
                    }
                    _ => {
                        let w = cx.n.fresh("w");
                        body.push(let_t(w, Ty::Vec(Box::new(tyv.clone())), bi("vec_new", vec![])));
                        bi("ref", vec![bi("vec_push", vec![v(w), val])])
                    }
                };
                let av = cx.n.fresh("arg");
                body.push(let_t(av, wrap(tyv.clone()), arg));
                body.push(show("int32", callg("probe", vec![tyv.clone()], vec![v(av)])));
            }
        }
        "permuted-struct-params" => {
            // a two-parameter struct read, inside generic code, at an instance whose arguments are the
            // function's parameters in the other order (and under the same names)
            cx.items.push(Item::Struct(StructDef { name: "Pr".into(), generics: vec!["A".into(), "B".into()], fields: vec![("first".into(), tp("A")), ("second".into(), tp("B"))], derives: vec![] }));
            let pr = |x: Ty, y: Ty| Ty::Named("Pr".into(), vec![x, y]);
            let (p1, p2, p3) = (cx.n.fresh("p"), cx.n.fresh("p"), cx.n.fresh("p"));
            cx.items.push(gfn("first_of_flipped", &["A", "B"], vec![], vec![(p1, pr(tp("B"), tp("A")))], tp("B"), E::Field(Box::new(v(p1)), "first".into())));
            cx.items.push(gfn("second_of_flipped", &["A", "B"], vec![], vec![(p2, pr(tp("B"), tp("A")))], tp("A"), E::Field(Box::new(v(p2)), "second".into())));
            cx.items.push(gfn("second_of_shifted", &["B"], vec![], vec![(p3, pr(tp("B"), Ty::Str))], Ty::Str, E::Field(Box::new(v(p3)), "second".into())));
            let (q, q2) = (cx.n.fresh("q"), cx.n.fresh("q"));
            let (va, vb, va2) = (value(&mut cx, a, 1), value(&mut cx, b, 2), value(&mut cx, a, 3));
            body.push(let_t(q, pr(ta.clone(), tb.clone()), E::StructLit("Pr".into(), vec![("first".into(), va), ("second".into(), vb)], vec![ta.clone(), tb.clone()])));
            body.push(show(a, callg("first_of_flipped", vec![tb.clone(), ta.clone()], vec![v(q)])));
            body.push(show(b, callg("second_of_flipped", vec![tb.clone(), ta.clone()], vec![v(q)])));
            body.push(let_t(q2, pr(ta.clone(), Ty::Str), E::StructLit("Pr".into(), vec![("first".into(), va2), ("second".into(), s("sec"))], vec![ta.clone(), Ty::Str])));
            body.push(show("string", callg("second_of_shifted", vec![ta.clone()], vec![v(q2)])));
        }
        "self-recursion-permuted" => {
            // a generic function that calls itself with its type parameters in the other order
            if a == b {
                return None;
            }
            let (xa, xb) = (cx.n.fresh("x"), cx.n.fresh("x"));
            cx.items.push(fn_def("showA", vec![(xa, ta.clone())], Some(Ty::Str), render(a, v(xa))));
            cx.items.push(fn_def("showB", vec![(xb, tb.clone())], Some(Ty::Str), render(b, v(xb))));
            let (pa, pb, pn, sa, sb) = (cx.n.fresh("a"), cx.n.fresh("b"), cx.n.fresh("n"), cx.n.fresh("sa"), cx.n.fresh("sb"));
            let fa = Ty::Fn(vec![tp("A")], Box::new(Ty::Str));
            let fb = Ty::Fn(vec![tp("B")], Box::new(Ty::Str));
            cx.items.push(gfn(
                "alternate",
                &["A", "B"],
                vec![],
                vec![(pa, tp("A")), (pb, tp("B")), (pn, Ty::i32()), (sa, fa), (sb, fb)],
                Ty::Str,
                if_(
                    bin(BinOp::Lt, v(pn), int(1)),
                    s("."),
                    add(add(E::Call(Box::new(v(sa)), vec![v(pa)]), s("|")), callg("alternate", vec![tp("B"), tp("A")], vec![v(pb), v(pa), bin(BinOp::Sub, v(pn), int(1)), v(sb), v(sa)])),
                ),
            ));
            let (va, vb) = (value(&mut cx, a, 1), value(&mut cx, b, 2));
            body.push(show("string", callg("alternate", vec![ta.clone(), tb.clone()], vec![va, vb, int(3), E::FnRef("showA".into(), vec![]), E::FnRef("showB".into(), vec![])])));
        }
        "uninferable-fn-param" | "uninferable-method-param" | "uninferable-impl-param" => {
            // a type parameter that the signature never mentions (nothing can instantiate it): the
            // program is rejected, or it means what the model says with T := a
            let nn = cx.n.fresh("n");
            let w = cx.n.fresh("w");
            let count_body = |w: VarId, nn: VarId| block(vec![let_t(w, Ty::Vec(Box::new(tp("T"))), bi("vec_new", vec![]))], Some(add(bi("vec_len", vec![v(w)]), v(nn))));
            if template == "uninferable-fn-param" {
                cx.items.push(gfn("count", &["T"], vec![], vec![(nn, Ty::i32())], Ty::i32(), count_body(w, nn)));
                body.push(show("int32", callg("count", vec![ta.clone()], vec![int(3)])));
            } else {
                cx.items.push(Item::Struct(StructDef { name: "Foo".into(), generics: vec![], fields: vec![("k".into(), Ty::i32())], derives: vec![] }));
                let sf = cx.n.fresh("self");
                let on_impl = template == "uninferable-impl-param";
                cx.items.push(Item::Impl(ImplDef {
                    generics: if on_impl { vec!["T".into()] } else { vec![] },
                    trait_name: None,
                    for_ty: Ty::named("Foo"),
                    methods: vec![FnDef {
                        name: "count".into(),
                        generics: if on_impl { vec![] } else { vec!["T".into()] },
                        bounds: vec![],
                        params: vec![(sf, Ty::named("Foo")), (nn, Ty::i32())],
                        ret: Some(Ty::i32()),
                        body: count_body(w, nn),
                    }],
                }));
                let f = cx.n.fresh("f");
                body.push(let_(f, E::StructLit("Foo".into(), vec![("k".into(), int(1))], vec![])));
                body.push(show("int32", E::Inherent("Foo".into(), "count".into(), CallForm::Dot, vec![v(f), int(3)], vec![])));
            }
        }
        "method-own-param" => {
            // a method of a generic impl with a type parameter of its own, instantiated at two types
            // for one receiver type
            cx.items.push(Item::Struct(StructDef { name: "Cell".into(), generics: vec!["T".into()], fields: vec![("v".into(), tp("T"))], derives: vec![] }));
            let (sf, tag, show_p) = (cx.n.fresh("self"), cx.n.fresh("tag"), cx.n.fresh("show"));
            cx.items.push(Item::Impl(ImplDef {
                generics: vec!["T".into()],
                trait_name: None,
                for_ty: Ty::Named("Cell".into(), vec![tp("T")]),
                methods: vec![FnDef {
                    name: "label".into(),
                    generics: vec!["L".into()],
                    bounds: vec![],
                    params: vec![(sf, Ty::Named("Cell".into(), vec![tp("T")])), (tag, tp("L")), (show_p, Ty::Fn(vec![tp("L")], Box::new(Ty::Str)))],
                    ret: Some(Ty::Str),
                    body: block(vec![st(println(s("in-label")))], Some(E::Call(Box::new(v(show_p)), vec![v(tag)]))),
                }],
            }));
            let (xa, xb) = (cx.n.fresh("x"), cx.n.fresh("x"));
            cx.items.push(fn_def("showA", vec![(xa, ta.clone())], Some(Ty::Str), render(a, v(xa))));
            cx.items.push(fn_def("showB", vec![(xb, tb.clone())], Some(Ty::Str), render(b, v(xb))));
            let c = cx.n.fresh("c");
            let (vc, va, vb, va2) = (value(&mut cx, a, 1), value(&mut cx, a, 2), value(&mut cx, b, 3), value(&mut cx, a, 4));
            body.push(let_t(c, Ty::Named("Cell".into(), vec![ta.clone()]), E::StructLit("Cell".into(), vec![("v".into(), vc)], vec![ta.clone()])));
            for (val, shower) in [(va, "showA"), (vb, "showB"), (va2, "showA")] {
                body.push(st(println(E::Inherent("Cell".into(), "label".into(), CallForm::Dot, vec![v(c), val, E::FnRef(shower.into(), vec![])], vec![ta.clone()]))));
            }
        }
        "return-only-param" => {
            // a type parameter that occurs only in the result type, at two instantiations that agree
            // on the argument-bound parameter
            cx.items.push(Item::Enum(EnumDef { name: "Either".into(), generics: vec!["L".into(), "R".into()], variants: vec![("Lft".into(), vec![tp("L")]), ("Rgt".into(), vec![tp("R")])], derives: vec![] }));
            let either = |l: Ty, r: Ty| Ty::Named("Either".into(), vec![l, r]);
            let (x, y) = (cx.n.fresh("x"), cx.n.fresh("y"));
            cx.items.push(gfn("left", &["L", "R"], vec![], vec![(x, tp("L"))], either(tp("L"), tp("R")), E::Ctor("Either".into(), "Lft".into(), false, vec![v(x)], vec![tp("L"), tp("R")])));
            cx.items.push(gfn("right", &["L", "R"], vec![], vec![(y, tp("R"))], either(tp("L"), tp("R")), E::Ctor("Either".into(), "Rgt".into(), false, vec![v(y)], vec![tp("L"), tp("R")])));
            let c = if b == "string" { "int32" } else { "string" };
            let tc = ty_of(c);
            let (e1, e2, e3) = (cx.n.fresh("e"), cx.n.fresh("e"), cx.n.fresh("e"));
            let (va, va2, vb) = (value(&mut cx, a, 1), value(&mut cx, a, 2), value(&mut cx, b, 3));
            body.push(let_t(e1, either(ta.clone(), tb.clone()), callg("left", vec![ta.clone(), tb.clone()], vec![va])));
            body.push(let_t(e2, either(ta.clone(), tc.clone()), callg("left", vec![ta.clone(), tc.clone()], vec![va2])));
            body.push(let_t(e3, either(ta.clone(), tb.clone()), callg("right", vec![ta.clone(), tb.clone()], vec![vb])));
            for (e, rname) in [(e1, b), (e2, c), (e3, b)] {
                let (l, r) = (cx.n.fresh("l"), cx.n.fresh("r"));
                body.push(st(println(E::Match(
                    Box::new(v(e)),
                    vec![
                        (Pat::Ctor("Either".into(), "Lft".into(), false, vec![Pat::Var(l)]), add(s("L:"), render(a, v(l)))),
                        (Pat::Ctor("Either".into(), "Rgt".into(), false, vec![Pat::Var(r)]), add(s("R:"), render(rname, v(r)))),
                    ],
                ))));
            }
        }
        "zero-arg-generic" => {
            // nothing but the expected type fixes T
            cx.items.push(gfn("none", &["T"], vec![], vec![], opt(tp("T")), E::Ctor("Opt".into(), "Non".into(), false, vec![], vec![tp("T")])));
            let d = cx.n.fresh("d");
            cx.items.push(gfn(
                "or_else",
                &["T"],
                vec![],
                vec![(d, tp("T"))],
                tp("T"),
                {
                    let g = cx.n.fresh("g");
                    E::Match(
                        Box::new(callg("none", vec![tp("T")], vec![])),
                        vec![(Pat::Ctor("Opt".into(), "Som".into(), false, vec![Pat::Var(g)]), v(g)), (Pat::Ctor("Opt".into(), "Non".into(), false, vec![]), v(d))],
                    )
                },
            ));
            let (va, vi) = (value(&mut cx, a, 1), value(&mut cx, "int32", 2));
            body.push(show(a, callg("or_else", vec![ta.clone()], vec![va])));
            body.push(show("int32", callg("or_else", vec![Ty::i32()], vec![vi])));
        }
        "swapped-params" => {
            // the same generic at (A, B) and at (B, A)
            let (x, y) = (cx.n.fresh("x"), cx.n.fresh("y"));
            cx.items.push(gfn("swap", &["T", "U"], vec![], vec![(x, tp("T")), (y, tp("U"))], Ty::Tuple(vec![tp("U"), tp("T")]), E::Tuple(vec![v(y), v(x)])));
            let (r1, r2) = (cx.n.fresh("r"), cx.n.fresh("r"));
            let (va, vb, vb2, va2) = (value(&mut cx, a, 1), value(&mut cx, b, 2), value(&mut cx, b, 3), value(&mut cx, a, 4));
            body.push(let_t(r1, Ty::Tuple(vec![tb.clone(), ta.clone()]), callg("swap", vec![ta.clone(), tb.clone()], vec![va, vb])));
            body.push(let_t(r2, Ty::Tuple(vec![ta.clone(), tb.clone()]), callg("swap", vec![tb.clone(), ta.clone()], vec![vb2, va2])));
            body.push(show(b, E::Proj(Box::new(v(r1)), 0)));
            body.push(show(a, E::Proj(Box::new(v(r1)), 1)));
            body.push(show(a, E::Proj(Box::new(v(r2)), 0)));
            body.push(show(b, E::Proj(Box::new(v(r2)), 1)));
        }
        "vec-generic" => {
            let w = cx.n.fresh("w");
            cx.items.push(gfn("first", &["T"], vec![], vec![(w, Ty::Vec(Box::new(tp("T"))))], tp("T"), bi("vec_get", vec![v(w), int(0)])));
            let e = cx.n.fresh("e");
            let (v1, v2) = (value(&mut cx, a, 1), value(&mut cx, a, 2));
            body.push(let_t(e, Ty::Vec(Box::new(ta.clone())), bi("vec_new", vec![])));
            body.push(show(a, callg("first", vec![ta.clone()], vec![bi("vec_push", vec![bi("vec_push", vec![v(e), v1]), v2])])));
        }
        "ref-generic" => {
            let r = cx.n.fresh("r");
            cx.items.push(gfn("deref", &["T"], vec![], vec![(r, Ty::Ref(Box::new(tp("T"))))], tp("T"), bi("ref_get", vec![v(r)])));
            let v1 = value(&mut cx, a, 1);
            body.push(show(a, callg("deref", vec![ta.clone()], vec![bi("ref", vec![v1])])));
        }
        "array-generic" => {
            let r = cx.n.fresh("r");
            cx.items.push(gfn("second", &["T"], vec![], vec![(r, Ty::Array(2, Box::new(tp("T"))))], tp("T"), bi("array_get", vec![v(r), int(1)])));
            let (v1, v2) = (value(&mut cx, a, 1), value(&mut cx, a, 2));
            body.push(show(a, callg("second", vec![ta.clone()], vec![E::Array(vec![v1, v2])])));
        }
        "id" => {
            let x = cx.n.fresh("x");
            cx.items.push(gfn("id", &["T"], vec![], vec![(x, tp("T"))], tp("T"), block(vec![st(println(s("in-id")))], Some(v(x)))));
            let val = value(&mut cx, a, 1);
            body.push(show(a, callg("id", vec![ta.clone()], vec![val])));
        }
        "pair" => {
            let (x, y) = (cx.n.fresh("x"), cx.n.fresh("y"));
            cx.items.push(gfn("pair", &["T", "U"], vec![], vec![(x, tp("T")), (y, tp("U"))], Ty::Tuple(vec![tp("T"), tp("U")]), E::Tuple(vec![v(x), v(y)])));
            let r = cx.n.fresh("r");
            let (va, vb) = (value(&mut cx, a, 1), value(&mut cx, b, 2));
            // (a projection needs the tuple type at hand: goml does not defer it, so annotate)
            body.push(let_t(r, Ty::Tuple(vec![ta.clone(), tb.clone()]), callg("pair", vec![ta.clone(), tb.clone()], vec![va, vb])));
            body.push(show(a, E::Proj(Box::new(v(r)), 0)));
            body.push(show(b, E::Proj(Box::new(v(r)), 1)));
        }
        "apply" => {
            let (f, x) = (cx.n.fresh("f"), cx.n.fresh("x"));
            cx.items.push(gfn("apply", &["T", "U"], vec![], vec![(f, Ty::Fn(vec![tp("T")], Box::new(tp("U")))), (x, tp("T"))], tp("U"), E::Call(Box::new(v(f)), vec![v(x)])));
            // callee: a closure T -> string rendering the argument
            let q = cx.n.fresh("q");
            let val = value(&mut cx, a, 1);
            body.push(show("string", callg("apply", vec![ta.clone(), Ty::Str], vec![E::Closure(vec![(q, Some(ta.clone()))], Box::new(render(a, v(q)))), val])));
        }
        "opt-unwrap" => {
            let (o, d, xx) = (cx.n.fresh("o"), cx.n.fresh("d"), cx.n.fresh("got"));
            cx.items.push(gfn(
                "unwrap_or",
                &["T"],
                vec![],
                vec![(o, opt(tp("T"))), (d, tp("T"))],
                tp("T"),
                E::Match(Box::new(v(o)), vec![(Pat::Ctor("Opt".into(), "Som".into(), false, vec![Pat::Var(xx)]), v(xx)), (Pat::Ctor("Opt".into(), "Non".into(), false, vec![]), v(d))]),
            ));
            let (v1, v2, v3) = (value(&mut cx, a, 1), value(&mut cx, a, 2), value(&mut cx, a, 3));
            body.push(show(a, callg("unwrap_or", vec![ta.clone()], vec![E::Ctor("Opt".into(), "Som".into(), false, vec![v1], vec![ta.clone()]), v2])));
            body.push(show(a, callg("unwrap_or", vec![ta.clone()], vec![E::Ctor("Opt".into(), "Non".into(), false, vec![], vec![ta.clone()]), v3])));
        }
        "box-method" => {
            cx.items.push(Item::Struct(StructDef { name: "Bx".into(), generics: vec!["T".into()], fields: vec![("v".into(), tp("T"))], derives: vec![] }));
            let sf = cx.n.fresh("self");
            cx.items.push(Item::Impl(ImplDef {
                generics: vec!["T".into()],
                trait_name: None,
                for_ty: Ty::Named("Bx".into(), vec![tp("T")]),
                methods: vec![FnDef { name: "get".into(), generics: vec![], bounds: vec![], params: vec![(sf, Ty::Named("Bx".into(), vec![tp("T")]))], ret: Some(tp("T")), body: E::Field(Box::new(v(sf)), "v".into()) }],
            }));
            let bx = cx.n.fresh("bx");
            let val = value(&mut cx, a, 1);
            body.push(let_t(bx, Ty::Named("Bx".into(), vec![ta.clone()]), E::StructLit("Bx".into(), vec![("v".into(), val)], vec![ta.clone()])));
            body.push(show(a, E::Inherent("Bx".into(), "get".into(), CallForm::Dot, vec![v(bx)], vec![ta.clone()])));
        }
        "trait-dispatch" | "two-bounds" => {
            // impls for `a` and `b` (must differ); generic fn with bound(s)
            if a == b {
                return None;
            }
            cx.items.push(Item::Trait(TraitDef { name: "Tr".into(), methods: vec![("describe".into(), vec![tp("Self")], Ty::Str)] }));
            cx.items.push(Item::Trait(TraitDef { name: "Tg".into(), methods: vec![("tag".into(), vec![tp("Self")], Ty::Str)] }));
            for (tn, t, label) in [(a, &ta, "A"), (b, &tb, "B")] {
                let sf = cx.n.fresh("self");
                cx.items.push(Item::Impl(ImplDef {
                    generics: vec![],
                    trait_name: Some("Tr".into()),
                    for_ty: t.clone(),
                    methods: vec![FnDef { name: "describe".into(), generics: vec![], bounds: vec![], params: vec![(sf, t.clone())], ret: Some(Ty::Str), body: add(s(&format!("impl{}:", label)), render(tn, v(sf))) }],
                }));
                let sf2 = cx.n.fresh("self");
                cx.items.push(Item::Impl(ImplDef {
                    generics: vec![],
                    trait_name: Some("Tg".into()),
                    for_ty: t.clone(),
                    methods: vec![FnDef { name: "tag".into(), generics: vec![], bounds: vec![], params: vec![(sf2, t.clone())], ret: Some(Ty::Str), body: s(&format!("tag{}", label)) }],
                }));
            }
            let x = cx.n.fresh("x");
            if template == "trait-dispatch" {
                cx.items.push(gfn("show_it", &["T"], vec![("T".into(), vec!["Tr".into()])], vec![(x, tp("T"))], Ty::Str, E::TraitCall("Tr".into(), "describe".into(), CallForm::Path, vec![v(x)], tp("T"))));
            } else {
                cx.items.push(gfn(
                    "show_it",
                    &["T"],
                    vec![("T".into(), vec!["Tr".into(), "Tg".into()])],
                    vec![(x, tp("T"))],
                    Ty::Str,
                    add(E::TraitCall("Tg".into(), "tag".into(), CallForm::Path, vec![v(x)], tp("T")), E::TraitCall("Tr".into(), "describe".into(), CallForm::Path, vec![v(x)], tp("T"))),
                ));
            }
            let (va, vb) = (value(&mut cx, a, 1), value(&mut cx, b, 2));
            body.push(show("string", callg("show_it", vec![ta.clone()], vec![va])));
            body.push(show("string", callg("show_it", vec![tb.clone()], vec![vb])));
        }
        "generic-calls-generic" => {
            let (x, y) = (cx.n.fresh("x"), cx.n.fresh("y"));
            cx.items.push(gfn("pair", &["T", "U"], vec![], vec![(x, tp("T")), (y, tp("U"))], Ty::Tuple(vec![tp("T"), tp("U")]), E::Tuple(vec![v(x), v(y)])));
            let z = cx.n.fresh("z");
            cx.items.push(gfn("dup", &["T"], vec![], vec![(z, tp("T"))], Ty::Tuple(vec![tp("T"), tp("T")]), callg("pair", vec![tp("T"), tp("T")], vec![v(z), v(z)])));
            let r = cx.n.fresh("r");
            let val = value(&mut cx, a, 1);
            body.push(let_t(r, Ty::Tuple(vec![ta.clone(), ta.clone()]), callg("dup", vec![ta.clone()], vec![val])));
            body.push(show(a, E::Proj(Box::new(v(r)), 0)));
            body.push(show(a, E::Proj(Box::new(v(r)), 1)));
        }
        "recursive-list" => {
            cx.items.push(Item::Enum(EnumDef { name: "List".into(), generics: vec!["T".into()], variants: vec![("Nil".into(), vec![]), ("Cons".into(), vec![tp("T"), Ty::Named("List".into(), vec![tp("T")])])], derives: vec![] }));
            let (l, h, t) = (cx.n.fresh("l"), cx.n.fresh("h"), cx.n.fresh("t"));
            let lt = |t: Ty| Ty::Named("List".into(), vec![t]);
            cx.items.push(gfn(
                "len",
                &["T"],
                vec![],
                vec![(l, lt(tp("T")))],
                Ty::i32(),
                E::Match(
                    Box::new(v(l)),
                    vec![
                        (Pat::Ctor("List".into(), "Nil".into(), false, vec![]), int(0)),
                        (Pat::Ctor("List".into(), "Cons".into(), false, vec![Pat::Var(h), Pat::Var(t)]), add(int(1), callg("len", vec![tp("T")], vec![v(t)]))),
                    ],
                ),
            ));
            let (l2, h2, t2, d2) = (cx.n.fresh("l"), cx.n.fresh("h"), cx.n.fresh("t"), cx.n.fresh("d"));
            cx.items.push(gfn(
                "head_or",
                &["T"],
                vec![],
                vec![(l2, lt(tp("T"))), (d2, tp("T"))],
                tp("T"),
                E::Match(
                    Box::new(v(l2)),
                    vec![(Pat::Ctor("List".into(), "Nil".into(), false, vec![]), v(d2)), (Pat::Ctor("List".into(), "Cons".into(), false, vec![Pat::Var(h2), Pat::Var(t2)]), v(h2))],
                ),
            ));
            let (v1, v2, v3) = (value(&mut cx, a, 1), value(&mut cx, a, 2), value(&mut cx, a, 3));
            let nil = || E::Ctor("List".into(), "Nil".into(), false, vec![], vec![ta.clone()]);
            let cons = |h: E, t: E| E::Ctor("List".into(), "Cons".into(), false, vec![h, t], vec![ta.clone()]);
            let lst = cx.n.fresh("lst");
            body.push(let_t(lst, lt(ta.clone()), cons(v1, cons(v2, nil()))));
            body.push(show("int32", callg("len", vec![ta.clone()], vec![v(lst)])));
            body.push(show(a, callg("head_or", vec![ta.clone()], vec![v(lst), v3])));
        }
        "two-instances" => {
            let x = cx.n.fresh("x");
            cx.items.push(gfn("id", &["T"], vec![], vec![(x, tp("T"))], tp("T"), v(x)));
            let (va, vb, va2) = (value(&mut cx, a, 1), value(&mut cx, b, 2), value(&mut cx, a, 3));
            body.push(show(a, callg("id", vec![ta.clone()], vec![va])));
            body.push(show(b, callg("id", vec![tb.clone()], vec![vb])));
            body.push(show(a, callg("id", vec![ta.clone()], vec![va2])));
        }
        "generic-fn-value" => {
            let x = cx.n.fresh("x");
            cx.items.push(gfn("id", &["T"], vec![], vec![(x, tp("T"))], tp("T"), v(x)));
            let f = cx.n.fresh("f");
            body.push(let_t(f, Ty::Fn(vec![ta.clone()], Box::new(ta.clone())), E::FnRef("id".into(), vec![ta.clone()])));
            let val = value(&mut cx, a, 1);
            body.push(show(a, E::Call(Box::new(v(f)), vec![val])));
        }
        "nested-instantiation" => {
            // id at Opt[T'] and at (T', T')
            let x = cx.n.fresh("x");
            cx.items.push(gfn("id", &["T"], vec![], vec![(x, tp("T"))], tp("T"), v(x)));
            let r = cx.n.fresh("r");
            let (v1, v2) = (value(&mut cx, a, 1), value(&mut cx, a, 2));
            let tt = Ty::Tuple(vec![ta.clone(), ta.clone()]);
            body.push(let_t(r, tt.clone(), callg("id", vec![tt], vec![E::Tuple(vec![v1, v2])])));
            body.push(show(a, E::Proj(Box::new(v(r)), 1)));
            let o = cx.n.fresh("o");
            let (d, g) = (cx.n.fresh("d"), cx.n.fresh("g"));
            let v3 = value(&mut cx, a, 3);
            let v4 = value(&mut cx, a, 4);
            body.push(let_(o, callg("id", vec![opt(ta.clone())], vec![E::Ctor("Opt".into(), "Som".into(), false, vec![v3], vec![ta.clone()])])));
            body.push(let_(d, v4));
            body.push(show(a, E::Match(Box::new(v(o)), vec![(Pat::Ctor("Opt".into(), "Som".into(), false, vec![Pat::Var(g)]), v(g)), (Pat::Ctor("Opt".into(), "Non".into(), false, vec![]), v(d))])));
        }
        _ => return None,
    }
    let mut main = std::mem::take(&mut cx.pre);
    main.extend(body);
    main.push(st(println(s("done"))));
    cx.items.push(fn_def("main", vec![], None, block(main, None)));
    Some(Program::single(cx.items, cx.n.names.clone()))
}

/// the one place of the signature where the type parameter occurs, each function instantiated at three
/// types in one program: (name, text, expected output)
fn signature_position_programs() -> Vec<(String, String, String)> {
    let head = "trait Show { fn show(Self) -> string; }\nimpl Show for int32 { fn show(self: int32) -> string { \"i\" + int32_to_string(self) } }\nimpl Show for bool { fn show(self: bool) -> string { \"b\" + bool_to_string(self) } }\nimpl Show for string { fn show(self: string) -> string { \"s\" + self } }\nfn seven() -> int32 { 7 }\nfn yes() -> bool { true }\nfn word() -> string { \"w\" }\nfn mk_seven() -> () -> int32 { seven }\nfn mk_yes() -> () -> bool { yes }\nfn mk_word() -> () -> string { word }\nfn seven_of(n: int32) -> int32 { n + 7 }\nfn yes_of(n: int32) -> bool { n > 0 }\nfn word_of(n: int32) -> string { \"w\" + int32_to_string(n) }\nfn pair7(n: int32) -> (int32, int32) { (7, n) }\nfn pairy(n: int32) -> (bool, int32) { (true, n) }\nfn pairw(n: int32) -> (string, int32) { (\"w\", n) }\nfn vec7(n: int32) -> Vec[int32] { vec_push(vec_new(), n) }\nfn vecy(n: int32) -> Vec[bool] { vec_push(vec_new(), n > 0) }\nfn vecw(n: int32) -> Vec[string] { vec_push(vec_new(), \"w\") }\n";
    // (name, generic function, the three calls, the three lines)
    let table: [(&str, &str, [&str; 3], [&str; 3]); 10] = [
        ("parameter", "fn g[T: Show](x: T) -> string { Show::show(x) }", ["g(7)", "g(true)", "g(\"w\")"], ["i7", "btrue", "sw"]),
        ("result-of-a-function-parameter", "fn g[T: Show](thunk: () -> T) -> string { let v: T = thunk(); Show::show(v) }", ["g(seven)", "g(yes)", "g(word)"], ["i7", "btrue", "sw"]),
        ("result-of-a-function-parameter-taking-an-argument", "fn g[T: Show](f: (int32) -> T) -> string { let v: T = f(1); Show::show(v) }", ["g(seven_of)", "g(yes_of)", "g(word_of)"], ["i8", "btrue", "sw1"]),
        ("result-of-the-result-of-a-function-parameter", "fn g[T: Show](t: () -> () -> T) -> string { let inner: () -> T = t(); let v: T = inner(); Show::show(v) }", ["g(mk_seven)", "g(mk_yes)", "g(mk_word)"], ["i7", "btrue", "sw"]),
        ("function-results-in-a-vector", "fn g[T: Show](fs: Vec[() -> T]) -> string { let f: () -> T = vec_get(fs, 0); let v: T = f(); Show::show(v) }", ["g(vec_push(vec_new(), seven))", "g(vec_push(vec_new(), yes))", "g(vec_push(vec_new(), word))"], ["i7", "btrue", "sw"]),
        ("function-results-in-a-tuple", "fn g[T: Show](p: (() -> T, int32)) -> string { let f: () -> T = p.0; let v: T = f(); Show::show(v) }", ["g((seven, 1))", "g((yes, 1))", "g((word, 1))"], ["i7", "btrue", "sw"]),
        ("tuple-result-of-a-function-parameter", "fn g[T: Show](f: (int32) -> (T, int32)) -> string { let p: (T, int32) = f(2); let v: T = p.0; Show::show(v) }", ["g(pair7)", "g(pairy)", "g(pairw)"], ["i7", "btrue", "sw"]),
        ("vector-result-of-a-function-parameter", "fn g[T: Show](f: (int32) -> Vec[T]) -> string { let xs: Vec[T] = f(3); let v: T = vec_get(xs, 0); Show::show(v) }", ["g(vec7)", "g(vecy)", "g(vecw)"], ["i3", "btrue", "sw"]),
        ("function-results-in-parameters-and-result", "fn pick[T](f: () -> T, h: () -> T, c: bool) -> () -> T { if c { f } else { h } }\nfn g[T: Show](f: () -> T) -> string { let p: () -> T = pick(f, f, true); let v: T = p(); Show::show(v) }", ["g(seven)", "g(yes)", "g(word)"], ["i7", "btrue", "sw"]),
        ("no-bound-result-of-a-function-parameter", "fn run[T](thunk: () -> T) -> T { thunk() }\nfn g[T: Show](thunk: () -> T) -> string { let v: T = run(thunk); Show::show(v) }", ["g(seven)", "g(yes)", "g(word)"], ["i7", "btrue", "sw"]),
    ];
    let mut out = Vec::new();
    for (name, func, calls, lines) in table {
        let mut main = String::from("fn main() {\n");
        for c in calls {
            main.push_str(&format!("    string_println({});\n", c));
        }
        main.push_str("}\n");
        out.push((name.to_string(), format!("{}{}\n{}", head, func, main), lines.iter().map(|l| format!("{}\n", l)).collect::<String>()));
    }
    out
}

/// a generic type whose field applies another generic type to its own parameter, instantiated at
/// an argument that is itself an instance of a generic type (and at a second one): (name, text, output)
fn nested_instance_programs() -> Vec<(String, String, String)> {
    let head = "struct Box[T] { v: T }\nenum Option[T] { None, Some(T) }\n";
    // (name, declarations, statements for Box[int32] printing 1, statements for Box[string] printing s)
    let table: [(&str, &str, &str, &str); 7] = [
        ("struct-field", "struct Slot[T] { item: Option[T] }\n",
         "let a: Slot[Box[int32]] = Slot { item: Option::Some(Box { v: 1 }) };\n    let x = match a.item { Option::Some(b) => b.v, Option::None => 0 };\n    string_println(int32_to_string(x));",
         "let c: Slot[Box[string]] = Slot { item: Option::Some(Box { v: \"s\" }) };\n    let y = match c.item { Option::Some(b) => b.v, Option::None => \"none\" };\n    string_println(y);"),
        ("recursive-struct", "struct Node[T] { val: T, next: Option[Node[T]] }\n",
         "let n0: Node[Box[int32]] = Node { val: Box { v: 1 }, next: Option::None };\n    let n1: Node[Box[int32]] = Node { val: Box { v: 5 }, next: Option::Some(n0) };\n    let x = match n1.next { Option::Some(m) => m.val.v, Option::None => 0 };\n    string_println(int32_to_string(x));",
         "let m0: Node[Box[string]] = Node { val: Box { v: \"s\" }, next: Option::None };\n    string_println(m0.val.v);"),
        ("enum-payload", "enum Holder[T] { Held(Option[T]), Empty }\n",
         "let a: Holder[Box[int32]] = Holder::Held(Option::Some(Box { v: 1 }));\n    let x = match a { Holder::Held(Option::Some(b)) => b.v, _ => 0 };\n    string_println(int32_to_string(x));",
         "let c: Holder[Box[string]] = Holder::Held(Option::Some(Box { v: \"s\" }));\n    let y = match c { Holder::Held(Option::Some(b)) => b.v, _ => \"none\" };\n    string_println(y);"),
        ("two-levels", "struct Slot[T] { item: Option[T] }\nstruct Outer[T] { inner: Slot[T], n: int32 }\n",
         "let a: Outer[Box[int32]] = Outer { inner: Slot { item: Option::Some(Box { v: 1 }) }, n: 2 };\n    let s = a.inner;\n    let x = match s.item { Option::Some(b) => b.v, Option::None => 0 };\n    string_println(int32_to_string(x));",
         "let c: Outer[Box[string]] = Outer { inner: Slot { item: Option::Some(Box { v: \"s\" }) }, n: 2 };\n    let t = c.inner;\n    let y = match t.item { Option::Some(b) => b.v, Option::None => \"none\" };\n    string_println(y);"),
        ("tuple-field", "struct Pairs[T] { p: (Option[T], int32) }\n",
         "let a: Pairs[Box[int32]] = Pairs { p: (Option::Some(Box { v: 1 }), 9) };\n    let q: (Option[Box[int32]], int32) = a.p;\n    let x = match q.0 { Option::Some(b) => b.v, Option::None => 0 };\n    string_println(int32_to_string(x));",
         "let c: Pairs[Box[string]] = Pairs { p: (Option::Some(Box { v: \"s\" }), 9) };\n    let r: (Option[Box[string]], int32) = c.p;\n    let y = match r.0 { Option::Some(b) => b.v, Option::None => \"none\" };\n    string_println(y);"),
        ("vector-field", "struct Many[T] { xs: Vec[Option[T]] }\n",
         "let a: Many[Box[int32]] = Many { xs: vec_push(vec_new(), Option::Some(Box { v: 1 })) };\n    let e: Option[Box[int32]] = vec_get(a.xs, 0);\n    let x = match e { Option::Some(b) => b.v, Option::None => 0 };\n    string_println(int32_to_string(x));",
         "let c: Many[Box[string]] = Many { xs: vec_push(vec_new(), Option::Some(Box { v: \"s\" })) };\n    let f: Option[Box[string]] = vec_get(c.xs, 0);\n    let y = match f { Option::Some(b) => b.v, Option::None => \"none\" };\n    string_println(y);"),
        ("argument-nested-twice", "struct Slot[T] { item: Option[T] }\n",
         "let a: Slot[Box[Box[int32]]] = Slot { item: Option::Some(Box { v: Box { v: 1 } }) };\n    let x = match a.item { Option::Some(b) => b.v.v, Option::None => 0 };\n    string_println(int32_to_string(x));",
         "let c: Slot[Option[Box[string]]] = Slot { item: Option::Some(Option::Some(Box { v: \"s\" })) };\n    let y = match c.item { Option::Some(Option::Some(b)) => b.v, _ => \"none\" };\n    string_println(y);"),
    ];
    table.iter().map(|(name, decls, first, second)| (name.to_string(), format!("{}{}fn main() {{\n    {}\n    {}\n}}\n", head, decls, first, second), "1\ns\n".to_string())).collect()
}

pub struct Generics;

impl Family for Generics {
    fn name(&self) -> &'static str {
        "generics"
    }
    fn serves(&self) -> &'static [&'static str] {
        &["C07", "C01", "C02", "C03", "C04"]
    }
    fn rule(&self) -> &'static str {
        "32 generic templates (a two-parameter generic struct whose fields are read inside generic code at an instance with the function's parameters in the other order / shifted; a generic function calling itself with its type parameters swapped; a type parameter of a function / of a method / of an impl block that the signature never mentions (rejected, or valid); a method with a type parameter of its own inside a generic impl, at two instantiations for one receiver type; 8 where the type parameter occurs in the signature only underneath Vec / Ref / array / tuple / Opt / a generic struct / Vec[Ref[.]] / Ref[Vec[.]], each instantiated at two types; a type parameter occurring only in the result type at two instantiations agreeing on the argument-bound parameter, zero-argument generic fixed by the expected type, the same generic at (A,B) and (B,A), Vec/Ref/array element generics, id, pair, apply, Opt unwrap, generic struct with inherent method, trait dispatch through a bound at two impl types, generic calling generic at (T,T), recursive List[T], two bounds, two instances in one program, generic fn as a value, nested instantiation) x 13 type arguments {int32,bool,string,unit,(int32,bool),[int32;2],Vec[int32],Ref[int32],(int32)->int32,S,E2,Opt[int32],Opt[Opt[bool]]} (all ordered pairs for two-parameter templates in thorough, a diagonal band in quick); oracle: output = type-passing reference semantics, emitted Go valid (no type-parameter residue can survive the Go checker); plus 9 polymorphic-recursion programs (a generic function reaching itself at a doubled tuple / Vec / Opt / pair-with-int type, through a second function, through a method, and by two or three recursive calls at different larger types, so that the instances multiply long before any type is large) which must terminate, accepted or rejected, and 2 finite chains of 12 and 40 generic functions each calling the next at a larger type, which must compile and print their length; 7 generic types that mention themselves at a larger instance (enum, struct, through a second type; at two or three different larger instances, so that the instances multiply; declared and never used: must be accepted) which must terminate and, if accepted, be valid Go printing the value, 2 regular recursive types (List[T]; one with its parameters permuted) which must be accepted, and 3 associated functions of a generic impl (the impl's parameter unmentioned: rejected or valid Go; in the argument; in the result only: accepted); and 10 generic functions whose type parameter occurs at exactly one place of the signature (a parameter; the result of a function-typed parameter, without and with an argument; the result of its result; function results inside a vector or a tuple; a tuple or vector result of a function-typed parameter; function results in parameters and in the result; through a second generic function), each called at int32, bool and string in one program and dispatching through the bound; and 7 generic types whose field applies another generic type to their own parameter (struct field, recursive struct, enum payload, two levels, tuple field, vector field, an argument nested twice), instantiated at Box[int32] and Box[string]. non-trivial = instantiations at non-scalar types; distinct = distinct source text"
    }
    fn cases(&self, tier: Tier) -> Box<dyn Iterator<Item = Value> + '_> {
        let mut v = Vec::new();
        for t in TEMPLATES {
            let two = matches!(t, "permuted-struct-params" | "self-recursion-permuted" | "pair" | "trait-dispatch" | "two-bounds" | "two-instances" | "return-only-param" | "swapped-params" | "method-own-param");
            for (i, a) in TYARGS.iter().enumerate() {
                if two {
                    for (j, b) in TYARGS.iter().enumerate() {
                        if tier == Tier::Quick && !(j == (i + 1) % TYARGS.len() || j == (i + 5) % TYARGS.len()) {
                            continue;
                        }
                        v.push(json!({"template": t, "a": a, "b": b}));
                    }
                } else {
                    v.push(json!({"template": t, "a": a, "b": a}));
                }
            }
        }
        // specialisation must terminate (or the program be rejected): every way a generic function can
        // reach itself at a larger type; and deep but finite instantiation chains must still compile
        for k in [
            "tuple-doubling", "vec-wrapping", "opt-wrapping", "pair-with-int", "mutual", "through-method", "branching-two-ways", "branching-through-two-functions", "branching-three-ways-slow-growth", "finite-depth-12", "finite-depth-40", "type-growing-enum", "type-growing-struct", "type-growing-mutual",
            "type-growing-unused", "type-growing-two-ways", "type-growing-two-ways-struct", "type-growing-three-ways-through-a-second-type", "type-regular-recursion", "type-regular-permuting", "associated-fn-impl-param-unmentioned", "associated-fn-impl-param-in-result", "associated-fn-impl-param-in-result-only",
        ] {
            v.push(json!({"template": "polymorphic-recursion", "a": k, "b": "int32"}));
        }
        for (name, _, _) in signature_position_programs() {
            v.push(json!({"template": "signature-positions", "a": name, "b": "int32"}));
        }
        for (name, _, _) in nested_instance_programs() {
            v.push(json!({"template": "nested-instances", "a": name, "b": "int32"}));
        }
        Box::new(v.into_iter())
    }
    fn case_timeout(&self, _tier: Tier) -> u64 {
        // unloaded the slowest case takes under a second; the margin is for a loaded machine
        40
    }
    fn crash_properties(&self) -> &'static [&'static str] {
        &["C04", "C07"]
    }
    fn run(&self, case: &Value, ctx: &mut Ctx) -> Report {
        let mut rep = Report::default();
        let (t, a, b) = (case["template"].as_str().unwrap(), case["a"].as_str().unwrap(), case["b"].as_str().unwrap());
        if t == "nested-instances" {
            let (name, text, expected) = nested_instance_programs().into_iter().find(|(n, _, _)| n == a).unwrap();
            let site = format!("template=nested-instances;holder={}", name);
            rep.nontrivial_key = Some(text.clone());
            rep.outcome = Some(site.clone());
            expect_text_program(ctx, &mut rep, "generics", case, &site, &text, &expected, &["C07", "C01"], &["C07", "C02"], &["C07"]);
            return rep;
        }
        if t == "signature-positions" {
            let (name, text, expected) = signature_position_programs().into_iter().find(|(n, _, _)| n == a).unwrap();
            let site = format!("template=signature-positions;where={}", name);
            rep.nontrivial_key = Some(text.clone());
            rep.outcome = Some(site.clone());
            expect_text_program(ctx, &mut rep, "generics", case, &site, &text, &expected, &["C07", "C01"], &["C07", "C02"], &["C07"]);
            return rep;
        }
        if t == "polymorphic-recursion" {
            // f[T](x: T, n) calls f[(T,T)]((x,x), n-1): specialisation must terminate (or be rejected)
            let finite = |depth: usize| {
                // g0[T] calls g1[(T, int32)] calls ... g<depth>: finitely many instances, types of growing size
                let mut t = String::new();
                for i in 0..depth {
                    t.push_str(&format!("fn g{}[T](x: T) -> int32 {{ 1 + g{}((x, {})) }}\n", i, i + 1, i));
                }
                t.push_str(&format!("fn g{}[T](x: T) -> int32 {{ 0 }}\nfn main() {{\n    string_println(int32_to_string(g0(true)))\n}}\n", depth));
                t
            };
            // (text, what it prints if it is accepted and the output is pinned, whether it has to be accepted)
            let (text_owned, pinned, must_accept): (String, Option<String>, bool) = match a {
                "vec-wrapping" => ("fn f[T](x: T, n: int32) -> int32 {\n    if n < 1 { 0 } else { let v: Vec[T] = vec_new(); 1 + f(vec_push(v, x), n - 1) }\n}\n\nfn main() {\n    string_println(int32_to_string(f(1, 3)))\n}\n".into(), None, false),
                "opt-wrapping" => ("enum Opt[T] { Non, Som(T) }\nfn f[T](x: T, n: int32) -> int32 {\n    if n < 1 { 0 } else { 1 + f(Opt::Som(x), n - 1) }\n}\n\nfn main() {\n    string_println(int32_to_string(f(1, 3)))\n}\n".into(), None, false),
                "pair-with-int" => ("fn f[T](x: T, n: int32) -> int32 {\n    if n < 1 { 0 } else { 1 + f((x, n), n - 1) }\n}\n\nfn main() {\n    string_println(int32_to_string(f(1, 3)))\n}\n".into(), None, false),
                "mutual" => ("fn f[T](x: T, n: int32) -> int32 {\n    if n < 1 { 0 } else { 1 + g((x, x), n - 1) }\n}\nfn g[U](y: U, n: int32) -> int32 { f(y, n) }\n\nfn main() {\n    string_println(int32_to_string(f(1, 3)))\n}\n".into(), None, false),
                "through-method" => ("struct Bx[T] { v: T }\nimpl[T] Bx[T] { fn grow(self: Bx[T], n: int32) -> int32 { if n < 1 { 0 } else { let b: Bx[(T, T)] = Bx { v: (self.v, self.v) }; 1 + b.grow(n - 1) } } }\n\nfn main() {\n    let b: Bx[int32] = Bx { v: 1 };\n    string_println(int32_to_string(b.grow(3)))\n}\n".into(), None, false),
                "finite-depth-12" => (finite(12), Some("12\n".into()), true),
                "finite-depth-40" => (finite(40), Some("40\n".into()), true),
                // two recursive calls at two larger types: the number of instances doubles with every level,
                // long before any of the types is large
                "branching-two-ways" => ("fn f[T](x: T, n: int32) -> int32 {\n    if n < 1 { 0 } else { f((x, 1), n - 1) + f((1, x), n - 1) }\n}\n\nfn main() {\n    string_println(int32_to_string(f(1, 3)))\n}\n".into(), None, false),
                "branching-through-two-functions" => ("fn f[T](x: T, n: int32) -> int32 {\n    if n < 1 { 0 } else { g((x, true), n - 1) + g((false, x), n - 1) }\n}\nfn g[U](y: U, n: int32) -> int32 { f(y, n) + f((y, y), n) }\n\nfn main() {\n    string_println(int32_to_string(f(1, 3)))\n}\n".into(), None, false),
                "branching-three-ways-slow-growth" => ("struct Bx[T] { v: T }\nfn f[T](x: T, n: int32) -> int32 {\n    if n < 1 { 0 } else { let a: Vec[T] = vec_new(); f(a, n - 1) + f(ref(x), n - 1) + f(Bx { v: x }, n - 1) }\n}\n\nfn main() {\n    string_println(int32_to_string(f(1, 3)))\n}\n".into(), None, false),
                // types that mention themselves at a larger instance: the set of instances is infinite
                "type-growing-enum" => ("struct Bx[T] { v: T }\nenum Nest[T] { Leaf(T), Node(Nest[Bx[T]]) }\nfn main() {\n    let n: Nest[int32] = Leaf(1);\n    string_println(match n { Leaf(k) => int32_to_string(k), Node(m) => \"node\" })\n}\n".into(), Some("1\n".into()), false),
                "type-growing-struct" => ("enum Opt[T] { Non, Som(T) }\nstruct Grow[T] { v: T, next: Opt[Grow[(T, T)]] }\nfn main() {\n    let g: Grow[int32] = Grow { v: 1, next: Non };\n    string_println(int32_to_string(g.v))\n}\n".into(), Some("1\n".into()), false),
                "type-growing-mutual" => ("enum Opt[T] { Non, Som(T) }\nstruct Aa[T] { v: T, b: Opt[Bb[Vec[T]]] }\nstruct Bb[T] { a: Opt[Aa[T]] }\nfn main() {\n    let a: Aa[int32] = Aa { v: 1, b: Non };\n    string_println(int32_to_string(a.v))\n}\n".into(), Some("1\n".into()), false),
                "type-growing-unused" => ("struct Bx[T] { v: T }\nenum Nest[T] { Leaf(T), Node(Nest[Bx[T]]) }\nfn main() {\n    string_println(\"1\")\n}\n".into(), Some("1\n".into()), true),
                // a type that mentions itself at two different larger instances: the instances double with every level
                "type-growing-two-ways" => ("enum Nest[T] { Leaf(T), A(Nest[Ref[T]]), B(Nest[Vec[T]]) }\nfn main() {\n    let n: Nest[int32] = Nest::Leaf(1);\n    string_println(match n { Nest::Leaf(k) => int32_to_string(k), Nest::A(m) => \"a\", Nest::B(m) => \"b\" })\n}\n".into(), Some("1\n".into()), false),
                "type-growing-two-ways-struct" => ("enum Opt[T] { Non, Som(T) }\nstruct Grow[T] { v: T, l: Opt[Grow[(T, int32)]], r: Opt[Grow[(int32, T)]] }\nfn main() {\n    let g: Grow[int32] = Grow { v: 1, l: Non, r: Non };\n    string_println(int32_to_string(g.v))\n}\n".into(), Some("1\n".into()), false),
                "type-growing-three-ways-through-a-second-type" => ("enum Opt[T] { Non, Som(T) }\nstruct Aa[T] { v: T, b: Opt[Bb[Vec[T]]], c: Opt[Bb[Ref[T]]] }\nstruct Bb[T] { a: Opt[Aa[T]], d: Opt[Aa[(T, T)]] }\nfn main() {\n    let a: Aa[int32] = Aa { v: 1, b: Non, c: Non };\n    string_println(int32_to_string(a.v))\n}\n".into(), Some("1\n".into()), false),
                // regular recursion: one instance
                "type-regular-recursion" => ("enum List[T] { Nil, Cons(T, List[T]) }\nfn len[T](l: List[T]) -> int32 { match l { Nil => 0, Cons(h, t) => 1 + len(t) } }\nfn main() {\n    let l: List[int32] = Cons(1, Cons(2, Nil));\n    string_println(int32_to_string(len(l)))\n}\n".into(), Some("2\n".into()), true),
                "type-regular-permuting" => ("enum Opt[T] { Non, Som(T) }\nstruct Sw[A, B] { a: A, next: Opt[Sw[B, A]] }\nfn main() {\n    let inner: Sw[bool, int32] = Sw { a: true, next: Non };\n    let s: Sw[int32, bool] = Sw { a: 2, next: Som(inner) };\n    string_println(int32_to_string(s.a))\n}\n".into(), Some("2\n".into()), true),
                // a parameter of the impl block that an associated function's signature never mentions
                "associated-fn-impl-param-unmentioned" => ("struct Bx[T] { v: T }\nimpl[T] Bx[T] { fn hello() -> string { let w: Vec[T] = vec_new(); \"h\" + int32_to_string(vec_len(w)) } }\nfn main() {\n    string_println(Bx::hello())\n}\n".into(), Some("h0\n".into()), false),
                "associated-fn-impl-param-in-result" => ("struct Bx[T] { v: T }\nimpl[T] Bx[T] { fn make(x: T) -> Bx[T] { Bx { v: x } } }\nfn main() {\n    let b = Bx::make(4);\n    string_println(int32_to_string(b.v))\n}\n".into(), Some("4\n".into()), true),
                "associated-fn-impl-param-in-result-only" => ("struct Bx[T] { v: Vec[T] }\nimpl[T] Bx[T] { fn empty() -> Bx[T] { Bx { v: vec_new() } } }\nfn main() {\n    let b: Bx[int32] = Bx::empty();\n    string_println(int32_to_string(vec_len(b.v)))\n}\n".into(), Some("0\n".into()), true),
                _ => ("fn f[T](x: T, n: int32) -> int32 {\n    if n < 1 { 0 } else { 1 + f((x, x), n - 1) }\n}\n\nfn main() {\n    string_println(int32_to_string(f(1, 3)))\n}\n".into(), None, false),
            };
            let text = text_owned.as_str();
            let path = ctx.scratch.single_path();
            rep.nontrivial_key = Some(text.to_string());
            match crate::oracle::compile_at(&path, text) {
                crate::oracle::CompileOutcome::Ok(c) => {
                    rep.tag("polyrec:accepted");
                    // an accepted program is a Go program, and prints what it means
                    let go = crate::oracle::go_text(&c).unwrap_or_default();
                    drop(c);
                    match crate::projects::run_go(&go, FUEL) {
                        Ok(o) if pinned.as_ref().map(|w| lossy(&o.stdout) == *w).unwrap_or(true) => rep.tag("polyrec:accepted-agrees"),
                        Ok(o) => rep.findings.push(Finding { property: "C07", class: "sem.stdout".into(), site: format!("template=polymorphic-recursion;a={}", a), detail: format!("expected {:?} got {:?}", pinned, lossy(&o.stdout)), replay: json!({"kind": "text", "text": text, "oracle": "total"}) }),
                        Err(m) if m.starts_with("machinery") => rep.tag("machinery:go-unsupported"),
                        Err(m) => {
                            for p in ["C07", "C02"] {
                                rep.findings.push(Finding { property: p, class: m.split(':').next().unwrap_or("go.invalid").to_string(), site: format!("template=polymorphic-recursion;a={};goerr={}", a, normalise_msg(&m)), detail: m.clone(), replay: json!({"kind": "text", "text": text, "oracle": "total"}) });
                            }
                        }
                    }
                }
                crate::oracle::CompileOutcome::Err(e) => {
                    rep.tag("polyrec:rejected");
                    let (stage, msg) = describe_err(&e);
                    if must_accept {
                        rep.findings.push(Finding { property: "C07", class: format!("compile.rejected.{}", stage), site: format!("template=polymorphic-recursion;a={};msg={}", a, normalise_msg(&msg)), detail: msg, replay: json!({"kind": "text", "text": text, "oracle": "total"}) });
                    }
                }
                crate::oracle::CompileOutcome::Panic(m) => {
                    let m = normalise_msg(&m);
                    for p in ["C07", "C04"] {
                        rep.findings.push(Finding { property: p, class: "compile.panic".into(), site: format!("template=polymorphic-recursion;msg={}", m), detail: m.clone(), replay: json!({"kind": "text", "text": text, "oracle": "total"}) });
                    }
                }
            }
            return rep;
        }
        let Some(prog) = build(t, a, b) else {
            rep.tag("inapplicable");
            return rep;
        };
        let site = format!("template={};a={};b={}", t, a, b);
        // (a program whose type parameter nothing can instantiate may be rejected)
        let props_reject: &'static [&'static str] = if t.starts_with("uninferable-") { &[] } else { &["C07"] };
        let opts = DiffOpts { props_sem: &["C07", "C01"], props_go: &["C02", "C07"], props_panic: &["C04", "C07"], props_reject, ..DiffOpts::default() };
        differential(&prog, &site, "generics", case, ctx, &opts, &mut rep);
        if matches!(a, "int32" | "bool" | "string" | "unit") && matches!(b, "int32" | "bool" | "string" | "unit") {
            rep.nontrivial_key = None;
        }
        rep
    }
}
