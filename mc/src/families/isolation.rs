//! C16: packages are isolated by imports; trait implementations are coherent.
//! All import graphs on {Main, A, B, C} (bounded edge count in quick), existence / naming faults,
//! qualified references to non-imported packages, and impl placements; the verdict must equal a
//! pure reference function of the configuration.

use crate::drive::*;
use crate::families::common::*;
use crate::projects::*;
use serde_json::{Value, json};

const PK: [&str; 4] = ["Main", "A", "B", "C"];

/// other names for A, B, C: each a proper prefix of the next, in both directions relative to the
/// roles the packages play (how a package is told apart from another must not be a prefix test)
const NAMINGS: [[&str; 3]; 3] = [["A", "B", "C"], ["Geo", "Geometry", "G"], ["Geometry", "Geo", "Geomet"]];

/// rename the packages A, B, C (whole identifiers only) in a file's path or text
fn rename_packages(text: &str, naming: usize) -> String {
    if naming == 0 {
        return text.to_string();
    }
    let mut out = String::new();
    let mut word = String::new();
    let flush = |word: &mut String, out: &mut String| {
        match word.as_str() {
            "A" => out.push_str(NAMINGS[naming][0]),
            "B" => out.push_str(NAMINGS[naming][1]),
            "C" => out.push_str(NAMINGS[naming][2]),
            w => out.push_str(w),
        }
        word.clear();
    };
    for ch in text.chars() {
        if ch.is_alphanumeric() || ch == '_' {
            word.push(ch);
        } else {
            flush(&mut word, &mut out);
            out.push(ch);
        }
    }
    flush(&mut word, &mut out);
    out
}

/// syntactic positions in which a package-qualified name can be written
const REFERENCE_KINDS: [&str; 19] = [
    "fn", "type", "variant", "ret-type", "generic-arg", "tuple-elem", "fn-type", "let-annot", "closure-annot", "closure-annot-nested", "struct-field", "enum-payload", "struct-lit",
    "struct-pat", "impl-header", "trait-bound", "trait-call", "dyn-type", "associated-fn",
];

/// implementing types for the impl-placement cases: a struct of package B, an instance of a generic
/// struct of B, and builtin types (which have no home package: only the trait's package may implement)
const IMPL_TARGETS: [&str; 9] = ["B::S", "B::G[int32]", "int32", "string", "bool", "Vec[int32]", "Ref[int32]", "(int32, bool)", "[int32; 2]"];

/// edges as a 12-bit mask over ordered pairs (i, j), i != j
fn edges_of(mask: u32) -> Vec<(usize, usize)> {
    let mut v = Vec::new();
    let mut bit = 0;
    for i in 0..4 {
        for j in 0..4 {
            if i != j {
                if mask & (1 << bit) != 0 {
                    v.push((i, j));
                }
                bit += 1;
            }
        }
    }
    v
}

fn reachable(edges: &[(usize, usize)]) -> Vec<bool> {
    let mut r = vec![false; 4];
    r[0] = true;
    let mut changed = true;
    while changed {
        changed = false;
        for (a, b) in edges {
            if r[*a] && !r[*b] {
                r[*b] = true;
                changed = true;
            }
        }
    }
    r
}

fn has_cycle(edges: &[(usize, usize)], reach: &[bool]) -> bool {
    // cycle among reachable packages
    let mut color = [0u8; 4];
    fn dfs(n: usize, edges: &[(usize, usize)], color: &mut [u8; 4]) -> bool {
        color[n] = 1;
        for (a, b) in edges {
            if *a == n {
                if color[*b] == 1 {
                    return true;
                }
                if color[*b] == 0 && dfs(*b, edges, color) {
                    return true;
                }
            }
        }
        color[n] = 2;
        false
    }
    for n in 0..4 {
        if reach[n] && color[n] == 0 && dfs(n, edges, &mut color) {
            return true;
        }
    }
    false
}

/// source of package `i` given the graph: calls f of every direct import
fn pkg_source(i: usize, edges: &[(usize, usize)], extra_ref: Option<(usize, usize, &str)>, decl_name: Option<&str>) -> String {
    let name = decl_name.unwrap_or(PK[i]);
    let mut s = format!("package {}\n", name);
    for (a, b) in edges {
        if *a == i {
            s.push_str(&format!("import {}\n", PK[*b]));
        }
    }
    s.push('\n');
    s.push_str(&format!("struct T{} {{ v: int32 }}\nenum E{} {{ V{}, W{}(int32) }}\ntrait Tr{} {{ fn t(Self) -> int32; }}\nimpl Tr{} for int32 {{ fn t(self: int32) -> int32 {{ self }} }}\nimpl T{} {{ fn make() -> int32 {{ 0 }} }}\n", PK[i], PK[i], PK[i], PK[i], PK[i], PK[i], PK[i]));
    let mut sum = format!("{}", i + 1);
    for (a, b) in edges {
        if *a == i {
            sum.push_str(&format!(" + {}::f{}()", PK[*b], PK[*b]));
        }
    }
    if let Some((from, to, kind)) = extra_ref {
        if from == i {
            match kind {
                "fn" => sum.push_str(&format!(" + {}::f{}()", PK[to], PK[to])),
                "type" => {
                    s.push_str(&format!("fn probe(t: {}::T{}) -> int32 {{ 0 }}\n", PK[to], PK[to]));
                }
                // the same qualified type in every other position a type can be written
                "ret-type" => s.push_str(&format!("fn probe() -> Vec[{p}::T{p}] {{ vec_new() }}\n", p = PK[to])),
                "generic-arg" => s.push_str(&format!("fn probe(t: Vec[{p}::T{p}]) -> int32 {{ 0 }}\n", p = PK[to])),
                "tuple-elem" => s.push_str(&format!("fn probe(t: (int32, {p}::T{p})) -> int32 {{ 0 }}\n", p = PK[to])),
                "fn-type" => s.push_str(&format!("fn probe(t: ({p}::T{p}) -> int32) -> int32 {{ 0 }}\n", p = PK[to])),
                "let-annot" => s.push_str(&format!("fn probe() -> int32 {{ let w: Vec[{p}::T{p}] = vec_new(); vec_len(w) }}\n", p = PK[to])),
                "closure-annot" => s.push_str(&format!("fn probe() -> int32 {{ let g = |t: {p}::T{p}| 0; 0 }}\n", p = PK[to])),
                "closure-annot-nested" => s.push_str(&format!("fn probe() -> int32 {{ let g = |t: Vec[{p}::T{p}]| 0; 0 }}\n", p = PK[to])),
                "struct-field" => s.push_str(&format!("struct Wrap {{ inner: {p}::T{p} }}\n", p = PK[to])),
                "enum-payload" => s.push_str(&format!("enum WrapE {{ NoW, HasW({p}::T{p}) }}\n", p = PK[to])),
                "struct-lit" => s.push_str(&format!("fn probe() -> int32 {{ let t = {p}::T{p} {{ v: 1 }}; t.v }}\n", p = PK[to])),
                "struct-pat" => s.push_str(&format!("fn probe(t: {p}::T{p}) -> int32 {{ match t {{ {p}::T{p} {{ v: k }} => k }} }}\n", p = PK[to])),
                "impl-header" => s.push_str(&format!("trait Loc {{ fn l(Self) -> int32; }}\nimpl Loc for {p}::T{p} {{ fn l(self: {p}::T{p}) -> int32 {{ 0 }} }}\n", p = PK[to])),
                "trait-bound" => s.push_str(&format!("fn probe[U: {p}::Tr{p}](u: U) -> int32 {{ 0 }}\n", p = PK[to])),
                "trait-call" => s.push_str(&format!("fn probe() -> int32 {{ {p}::Tr{p}::t(1) }}\n", p = PK[to])),
                "dyn-type" => s.push_str(&format!("fn probe(d: dyn {p}::Tr{p}) -> int32 {{ 0 }}\n", p = PK[to])),
                "associated-fn" => s.push_str(&format!("fn probe() -> int32 {{ {p}::T{p}::make() }}\n", p = PK[to])),
                _ => {
                    s.push_str(&format!("fn probe() -> int32 {{ match {}::E{}::V{} {{ {}::E{}::V{} => 0, {}::E{}::W{}(k) => k }} }}\n", PK[to], PK[to], PK[to], PK[to], PK[to], PK[to], PK[to], PK[to], PK[to]));
                }
            }
        }
    }
    if i == 0 {
        s.push_str(&format!("fn main() {{ string_println(int32_to_string({})) }}\n", sum));
    } else {
        s.push_str(&format!("fn f{}() -> int32 {{ {} }}\n", PK[i], sum));
    }
    s
}

fn expected_value(i: usize, edges: &[(usize, usize)]) -> i64 {
    let mut v = (i + 1) as i64;
    for (a, b) in edges {
        if *a == i {
            v += expected_value(*b, edges);
        }
    }
    v
}

fn cases_list(tier: Tier) -> Vec<Value> {
    let mut v = Vec::new();
    for mask in 0u32..4096 {
        let ne = mask.count_ones();
        let limit = if tier == Tier::Quick { 4 } else { 12 };
        if ne <= limit {
            v.push(json!({"kind": "graph", "mask": mask}));
        }
    }
    // faults on a fixed diamond Main->{A,B}->C
    for fault in ["missing-dir", "misnamed-package", "empty-dir"] {
        for target in 1..4 {
            v.push(json!({"kind": "fault", "fault": fault, "target": target}));
        }
    }
    // a directory of n files in which some declare another package: every single position, every adjacent pair, none
    for place in ["lib", "root"] {
        for n in 2..=6u64 {
            let first = if place == "root" { 1 } else { 0 };
            v.push(json!({"kind": "stray-file", "where": place, "n": n, "stray": []}));
            for i in first..n {
                v.push(json!({"kind": "stray-file", "where": place, "n": n, "stray": [i]}));
                if i + 1 < n {
                    v.push(json!({"kind": "stray-file", "where": place, "n": n, "stray": [i, i + 1]}));
                }
            }
        }
    }
    // references to packages that are not directly imported: chain Main->A->B, C unrelated
    for from in 0..3 {
        for to in 0..4 {
            for k in REFERENCE_KINDS {
                v.push(json!({"kind": "reference", "from": from, "to": to, "what": k}));
                for naming in 1..NAMINGS.len() {
                    v.push(json!({"kind": "reference", "from": from, "to": to, "what": k, "naming": naming}));
                }
            }
        }
    }
    // impl placements: trait in A, type in B, impls in subsets of {A, B, C, Main}
    for target in IMPL_TARGETS {
        for placement in 0u32..16 {
            v.push(json!({"kind": "impl", "placement": placement, "target": target}));
            for naming in 1..NAMINGS.len() {
                v.push(json!({"kind": "impl", "placement": placement, "target": target, "naming": naming}));
            }
        }
    }
    v
}

pub struct Isolation;

impl Family for Isolation {
    fn name(&self) -> &'static str {
        "isolation"
    }
    fn serves(&self) -> &'static [&'static str] {
        &["C16", "C04", "C13"]
    }
    fn rule(&self) -> &'static str {
        "all import graphs on {Main,A,B,C} with <= 4 edges (quick) / all 4096 (thorough) incl. cycles and self-reachable shapes: accepted iff the subgraph reachable from Main is acyclic, and then the program prints the value the graph denotes; 9 existence/naming faults (missing directory, misnamed package declaration, empty directory) on a diamond; a directory (a library's, the root) of 2-6 files in which one file at every position / two neighbouring files / none declare another package: accepted iff none; 228 qualified references from each package of a chain to each package in 19 syntactic positions, each also package by package through build + link, (fn call, parameter / result / generic-argument / tuple / function type, let and closure-parameter annotation, struct field, enum payload, struct literal and pattern, impl header, trait bound, trait path call, dyn type, variant, associated function): accepted iff the target is the package itself or a direct import; 16 impl placements (subsets of {A, B, C, Main}) x 9 implementing types {B::S, B::G[int32], int32, string, bool, Vec[int32], Ref[int32], (int32, bool), [int32; 2]} for a trait in A: accepted iff every impl is in the trait's package or (for B's own types) the type's package and at most one exists (builtin types have no home package). the reference and impl-placement configurations also with the packages named so that each name is a proper prefix of another's ({Geo, Geometry, G} and {Geometry, Geo, Geomet} for {A, B, C}); verdict = pure reference function of the configuration. non-trivial = configurations that must be rejected; distinct = distinct configuration"
    }
    fn cases(&self, tier: Tier) -> Box<dyn Iterator<Item = Value> + '_> {
        Box::new(cases_list(tier).into_iter())
    }
    fn run(&self, case: &Value, ctx: &mut Ctx) -> Report {
        let mut rep = Report::default();
        let root = ctx.scratch.fresh_dir("iso");
        let mut files: Vec<(String, String)> = Vec::new();
        let expect_accept: bool;
        let mut expect_kind = "";
        let mut expect_out: Option<String> = None;
        let mut either_ok = false;
        let site;
        let path_of = |i: usize| if i == 0 { "main.gom".to_string() } else { format!("{}/lib.gom", PK[i]) };
        match case["kind"].as_str().unwrap() {
            "graph" => {
                let mask = case["mask"].as_u64().unwrap() as u32;
                let edges = edges_of(mask);
                let reach = reachable(&edges);
                for i in 0..4 {
                    files.push((path_of(i), pkg_source(i, &edges, None, None)));
                }
                let cyc = has_cycle(&edges, &reach);
                expect_accept = !cyc;
                if cyc {
                    expect_kind = "cycle";
                } else {
                    expect_out = Some(format!("{}\n", expected_value(0, &edges)));
                }
                site = format!("graph;edges={};cyclic={}", edges.len(), cyc);
            }
            "fault" => {
                let edges = vec![(0, 1), (0, 2), (1, 3), (2, 3)];
                let fault = case["fault"].as_str().unwrap();
                let target = case["target"].as_u64().unwrap() as usize;
                for i in 0..4 {
                    if i == target {
                        match fault {
                            "missing-dir" => continue,
                            "misnamed-package" => files.push((path_of(i), pkg_source(i, &edges, None, Some("Zed")))),
                            _ => files.push((format!("{}/README.txt", PK[i]), "not a source".into())),
                        }
                    } else {
                        files.push((path_of(i), pkg_source(i, &edges, None, None)));
                    }
                }
                expect_accept = false;
                expect_kind = match fault {
                    "misnamed-package" => "declares package",
                    _ => "",
                };
                site = format!("fault={};target={}", fault, PK[target]);
            }
            "stray-file" => {
                let place = case["where"].as_str().unwrap();
                let n = case["n"].as_u64().unwrap() as usize;
                let stray: Vec<usize> = case["stray"].as_array().unwrap().iter().map(|x| x.as_u64().unwrap() as usize).collect();
                let (n_lib, n_root) = if place == "lib" { (n, 1) } else { (1, n) };
                let mut sum = 0usize;
                let mut terms: Vec<String> = Vec::new();
                for k in 0..n_lib {
                    let pkg = if place == "lib" && stray.contains(&k) { "Zed" } else { "A" };
                    files.push((format!("A/a{}.gom", k), format!("package {}\n\nfn f{}() -> int32 {{ {} }}\n", pkg, k, k + 1)));
                    // nothing refers to what a stray file declares: only its package clause is wrong
                    if pkg == "A" {
                        terms.push(format!("A::f{}()", k));
                        sum += k + 1;
                    }
                }
                for k in 1..n_root {
                    let pkg = if place == "root" && stray.contains(&k) { "Zed" } else { "Main" };
                    files.push((format!("s{}.gom", k), format!("package {}\n\nfn m{}() -> int32 {{ {} }}\n", pkg, k, 10 * k)));
                    if pkg == "Main" {
                        terms.push(format!("m{}()", k));
                        sum += 10 * k;
                    }
                }
                terms.push("0".to_string());
                files.insert(0, ("main.gom".to_string(), format!("package Main\nimport A\n\nfn main() {{\n    string_println(int32_to_string({}))\n}}\n", terms.join(" + "))));
                expect_accept = stray.is_empty();
                if stray.is_empty() {
                    expect_out = Some(format!("{}\n", sum));
                }
                site = format!("stray-file;where={};files={};stray={:?}", place, n, stray);
            }
            "reference" => {
                let edges = vec![(0, 1), (1, 2)];
                let (from, to) = (case["from"].as_u64().unwrap() as usize, case["to"].as_u64().unwrap() as usize);
                let what = case["what"].as_str().unwrap();
                for i in 0..4 {
                    files.push((path_of(i), pkg_source(i, &edges, Some((from, to, what)), None)));
                }
                let direct = from == to || edges.contains(&(from, to));
                expect_accept = direct;
                // any error diagnostic satisfies the statement; the wording is not pinned
                // a self reference through the own package name adds its own f: recursion for fn kind; skip that shape
                if from == to && what == "fn" {
                    rep.tag("inapplicable");
                    return rep;
                }
                site = format!("reference;what={};direct={};self={}", what, direct, from == to);
            }
            _ => {
                // trait Tr in A; type S in B; Main imports A, B, C; C imports A, B
                let placement = case["placement"].as_u64().unwrap() as u32;
                let in_a = placement & 1 != 0; // A would need to import B: allowed (B does not import A)
                let in_b = placement & 2 != 0; // B imports A
                let in_c = placement & 4 != 0;
                let in_m = placement & 8 != 0;
                let target = case["target"].as_str().unwrap_or("B::S");
                let foreign = target.starts_with("B::");
                // how the type is spelled inside B itself
                let local_spelling = target.strip_prefix("B::").unwrap_or(target).to_string();
                let imp = |tr: &str, ty: &str, tag: &str| format!("impl {} for {} {{ fn show(self: {}) -> string {{ \"{}\" }} }}\n", tr, ty, ty, tag);
                let mut a = String::from("package A\n");
                if in_a && foreign {
                    a.push_str("import B\n");
                }
                a.push_str("\ntrait Tr { fn show(Self) -> string; }\n");
                if in_a {
                    a.push_str(&imp("Tr", target, "from-A"));
                }
                let mut b = String::from("package B\n");
                if in_b {
                    b.push_str("import A\n");
                }
                b.push_str("\nstruct S { v: int32 }\nstruct G[T] { g: T }\n");
                if in_b {
                    b.push_str(&imp("A::Tr", &local_spelling, "from-B"));
                }
                let mut c = String::from("package C\nimport A\nimport B\n\nfn fC() -> int32 { 1 }\n");
                if in_c {
                    c.push_str(&imp("A::Tr", target, "from-C"));
                }
                let mut m = String::from("package Main\nimport A\nimport B\nimport C\n\n");
                if in_m {
                    m.push_str(&imp("A::Tr", target, "from-Main"));
                }
                m.push_str("fn main() { string_println(int32_to_string(C::fC())) }\n");
                files.push(("main.gom".into(), m));
                files.push(("A/lib.gom".into(), a));
                files.push(("B/lib.gom".into(), b));
                files.push(("C/lib.gom".into(), c));
                let cyclic = in_a && in_b && foreign;
                // B is the type's package only for B's own types
                let orphan = in_c || in_m || (in_b && !foreign);
                let dup = (in_a as u32 + in_b as u32 + in_c as u32 + in_m as u32) > 1;
                expect_accept = !cyclic && !orphan && !dup;
                // whether tuples / arrays can carry impls at all is not the point here: only their
                // orphan / duplicate placements are judged
                either_ok = expect_accept && (in_a || in_b) && matches!(target, "(int32, bool)" | "[int32; 2]");
                expect_kind = if cyclic { "cycle" } else { "" };
                if expect_accept {
                    expect_out = Some("1\n".into());
                }
                site = format!("impl;target={};placement=A{}B{}C{}M{}", target, in_a as u8, in_b as u8, in_c as u8, in_m as u8);
            }
        }
        let naming = case["naming"].as_u64().unwrap_or(0) as usize;
        let site = if naming == 0 { site } else { format!("{};names={}", site, NAMINGS[naming].join("+")) };
        let files: Vec<(String, String)> = files.into_iter().map(|(p, t)| (rename_packages(&p, naming), rename_packages(&t, naming))).collect();
        let proj = Project { name: site.clone(), files, expected_stdout: expect_out.clone() };
        let order: Vec<usize> = (0..proj.files.len()).collect();
        materialize(&root, &proj, &order);
        if !expect_accept {
            rep.nontrivial_key = Some(format!("{}|{}", site, case));
        }
        let replay = json!({"kind": "project", "project": site, "files": proj.files, "expect_accept": expect_accept});
        let replay_sep = replay.clone();
        rep.sample = Some(json!({"configuration": site, "files": proj.files, "expect_accept": expect_accept}));
        let (w, _) = whole(&root);
        match (&w, expect_accept) {
            (Built::Ok { go }, true) => {
                rep.tag("accepted-as-expected");
                match run_go(go, FUEL) {
                    Ok(o) => {
                        rep.outcome = Some(lossy(&o.stdout));
                        if let Some(exp) = &expect_out {
                            if lossy(&o.stdout) != *exp {
                                rep.findings.push(Finding { property: "C16", class: "iso.output-differs".into(), site: site.clone(), detail: format!("expected {:?} got {:?}", exp, lossy(&o.stdout)), replay: replay.clone() });
                            }
                        }
                    }
                    Err(m) => {
                        if m.starts_with("machinery") {
                            rep.tag("machinery:go-unsupported");
                        } else {
                            rep.findings.push(Finding { property: "C16", class: "iso.go-invalid".into(), site: site.clone(), detail: m, replay: replay.clone() });
                        }
                    }
                }
            }
            (Built::Ok { .. }, false) => {
                rep.tag("accepted-but-must-reject");
                rep.outcome = Some("accepted".into());
                rep.findings.push(Finding { property: "C16", class: "iso.accepted".into(), site: site.clone(), detail: "a configuration that must be rejected was accepted".into(), replay });
            }
            (Built::Err { stage, .. }, true) if either_ok => {
                rep.tag(format!("not-judged:rejected:{}", stage));
            }
            (Built::Err { stage, messages }, true) => {
                rep.tag("rejected-but-must-accept");
                rep.findings.push(Finding { property: "C16", class: "iso.rejected".into(), site: site.clone(), detail: format!("{}: {:?}", stage, messages), replay });
            }
            (Built::Err { stage, messages }, false) => {
                rep.tag(format!("rejected-as-expected:{}", stage));
                rep.outcome = Some(format!("rejected:{}", stage));
                if messages.is_empty() {
                    rep.findings.push(Finding { property: "C16", class: "iso.rejected-without-diagnostic".into(), site: site.clone(), detail: stage.clone(), replay: replay.clone() });
                }
                if !expect_kind.is_empty() && !messages.iter().any(|m| m.contains(expect_kind)) {
                    rep.tag("rejected:other-diagnostic-kind");
                    rep.findings.push(Finding {
                        property: "C16",
                        class: "iso.wrong-diagnostic-kind".into(),
                        site: site.clone(),
                        detail: format!("expected a diagnostic mentioning {:?}, got {:?}", expect_kind, messages),
                        replay,
                    });
                }
            }
            (Built::Panic(m), _) => {
                let m = normalise_msg(m);
                for p in ["C16", "C04"] {
                    rep.findings.push(Finding { property: p, class: "compile.panic".into(), site: format!("{};msg={}", site, m), detail: m.clone(), replay: replay.clone() });
                }
            }
        }
        // the references also package by package (check / build with every interface built so far on the interface
        // path, then link): a package that is not imported is as unknown there as under whole-program compilation
        if case["kind"] == "reference" {
            let pkgs = packages(&proj);
            if let Some(topo) = topo_orders(&pkgs).into_iter().next() {
                let out = ctx.scratch.fresh_dir("iso-artifacts");
                match (separate(&root, &out, &pkgs, &topo, false).built, expect_accept) {
                    (Built::Ok { .. }, true) => rep.tag("build+link:accepted-as-expected"),
                    (Built::Err { stage, .. }, false) => rep.tag(format!("build+link:rejected-as-expected:{}", stage)),
                    (Built::Ok { .. }, false) => {
                        rep.findings.push(Finding { property: "C16", class: "iso.accepted-by-build".into(), site: site.clone(), detail: "a reference to a package that is not imported was accepted by build + link".into(), replay: replay_sep.clone() });
                    }
                    (Built::Err { stage, messages }, true) => {
                        if !either_ok {
                            rep.findings.push(Finding { property: "C16", class: "iso.rejected-by-build".into(), site: site.clone(), detail: format!("{}: {:?}", stage, messages), replay: replay_sep.clone() });
                        }
                    }
                    (Built::Panic(m), _) => {
                        let m = normalise_msg(&m);
                        for p in ["C16", "C04"] {
                            rep.findings.push(Finding { property: p, class: "compile.panic".into(), site: format!("{};pipeline=build+link;msg={}", site, m), detail: m.clone(), replay: replay_sep.clone() });
                        }
                    }
                }
            }
        }
        rep
    }
}
