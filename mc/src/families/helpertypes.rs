//! C02: every helper the Go generator writes for a type (tuple structs, `ref_*_x` structs and their
//! accessors, `array_get__*` / `array_set__*`, instance structs of generic types, dyn vtables, closure
//! environments) is declared when the type occurs in one place of the program only - wherever that place is.

use crate::drive::*;
use crate::families::common::*;
use serde_json::{Value, json};

/// (name, statements that build a value of the type and print something read from it, the line printed)
const USES: [(&str, &str, &str); 14] = [
    ("tuple", "let pair = (41, \"worker\");\n        string_println(pair.1);", "worker"),
    ("nested-tuple", "let nest = ((1, true), \"deep\");\n        string_println(nest.1 + bool_to_string(nest.0.1));", "deeptrue"),
    ("ref", "let cell = ref(true);\n        string_println(bool_to_string(ref_get(cell)));", "true"),
    ("ref-of-tuple", "let cell = ref((2, \"r\"));\n        let got: (int32, string) = ref_get(cell);\n        string_println(got.1);", "r"),
    ("ref-written", "let cell = ref(2i64);\n        ref_set(cell, 5i64);\n        string_println(int64_to_string(ref_get(cell)));", "5"),
    ("array", "let arr = [1u8, 2u8, 3u8];\n        string_println(uint8_to_string(array_get(arr, 1)));", "2"),
    ("array-written", "let arr = [true, false];\n        let arr2 = array_set(arr, 1, true);\n        string_println(bool_to_string(array_get(arr2, 1)));", "true"),
    ("array-of-tuples", "let arr = [(1, \"a\"), (2, \"b\")];\n        let el: (int32, string) = array_get(arr, 1);\n        string_println(el.1);", "b"),
    ("vector-of-tuples", "let v = vec_push(vec_new(), (7, false));\n        let el: (int32, bool) = vec_get(v, 0);\n        string_println(int32_to_string(el.0));", "7"),
    ("generic-struct-instance", "let bx = Box { v: 2.5 };\n        string_println(float64_to_string(bx.v));", "2.5"),
    ("generic-enum-instance", "let op = Opt::Som(\"in\");\n        let shown = match op { Opt::Som(s) => s, Opt::Non => \"none\" };\n        string_println(shown);", "in"),
    ("dyn-value", "let d: dyn Speak = 9u16;\n        string_println(Speak::speak(d));", "u9"),
    ("closure", "let k = 3i8;\n        let addk = |q: int8| q + k;\n        string_println(int8_to_string(addk(4i8)));", "7"),
    ("tuple-of-refs", "let both = (ref(1), ref(\"z\"));\n        string_println(ref_get(both.1));", "z"),
];

/// (name, program with § for the statements, whether the line is printed before the program ends)
const PLACES: [(&str, &str, bool); 15] = [
    ("main", "fn main() {\n        §\n}\n", true),
    ("function-called-from-main", "fn work() -> unit {\n        §\n}\nfn main() {\n    work()\n}\n", true),
    ("else-branch", "fn main() {\n    let c = false;\n    if c { () } else {\n        §\n    }\n}\n", true),
    ("match-arm", "fn main() {\n    let c = 2;\n    match c {\n        1 => (),\n        _ => {\n        §\n        },\n    }\n}\n", true),
    ("while-body", "fn main() {\n    let n = ref(0);\n    while ref_get(n) < 1 {\n        ref_set(n, 1);\n        §\n    }\n}\n", true),
    ("called-closure", "fn main() {\n    let c = || {\n        §\n    };\n    c()\n}\n", true),
    ("spawned-closure", "fn main() {\n    go || {\n        §\n    };\n    string_println(\"main\")\n}\n", false),
    ("function-called-by-a-spawned-closure", "fn work() -> unit {\n        §\n}\nfn main() {\n    go || work();\n    string_println(\"main\")\n}\n", false),
    ("spawned-function", "fn work() -> unit {\n        §\n}\nfn main() {\n    go work;\n    string_println(\"main\")\n}\n", false),
    ("closure-in-a-spawned-closure", "fn main() {\n    go || {\n        let inner = || {\n        §\n        };\n        inner()\n    };\n    string_println(\"main\")\n}\n", false),
    ("function-used-as-a-value", "fn work() -> unit {\n        §\n}\nfn run(f: () -> unit) -> unit { f() }\nfn main() {\n    run(work)\n}\n", true),
    ("function-bound-to-a-local", "fn work() -> unit {\n        §\n}\nfn main() {\n    let f = work;\n    f()\n}\n", true),
    ("method-reached-through-dyn", "trait Act { fn act(Self) -> unit; }\nstruct Doer { n: int32 }\nimpl Act for Doer {\n    fn act(self: Doer) -> unit {\n        §\n    }\n}\nfn main() {\n    let d: dyn Act = Doer { n: 1 };\n    Act::act(d)\n}\n", true),
    ("method-reached-through-a-bound", "trait Act { fn act(Self) -> unit; }\nstruct Doer { n: int32 }\nimpl Act for Doer {\n    fn act(self: Doer) -> unit {\n        §\n    }\n}\nfn via[T: Act](x: T) -> unit { Act::act(x) }\nfn main() {\n    via(Doer { n: 1 })\n}\n", true),
    ("generic-function-instance", "fn gen[T](x: T) -> unit {\n        §\n}\nfn main() {\n    gen(false)\n}\n", true),
];

const DECLS: &str = "struct Box[T] { v: T }\nenum Opt[T] { Som(T), Non }\ntrait Speak { fn speak(Self) -> string; }\nimpl Speak for uint16 { fn speak(self: uint16) -> string { \"u\" + uint16_to_string(self) } }\n";

/// types that occur only in the signature of a method of a trait used as `dyn`
const SIG_TYPES: [(&str, &str, &str); 10] = [
    ("dyn-of-another-trait", "dyn Speak", "9u16"),
    ("vector-of-dyn-of-another-trait", "Vec[dyn Speak]", "vec_new()"),
    ("tuple", "(int32, int64)", "(1, 2i64)"),
    ("nested-tuple", "((bool, string), int8)", "((true, \"s\"), 1i8)"),
    ("ref", "Ref[uint8]", "ref(1u8)"),
    ("array", "[int16; 3]", "[1i16, 2i16, 3i16]"),
    ("vector-of-tuples", "Vec[(bool, bool)]", "vec_new()"),
    ("generic-struct-instance", "Box[int64]", "Box { v: 1i64 }"),
    ("generic-enum-instance", "Opt[uint32]", "Opt::Non"),
    ("function-type-over-a-tuple", "((int8, int8)) -> int8", "pick8"),
];
const SIG_IMPLS: [&str; 3] = ["no-impl", "impl-never-coerced", "impl-coerced"];

/// types that occur only in a definition no expression of the program uses
const DEF_TYPES: [(&str, &str); 13] = [
    ("tuple", "(int32, int64)"),
    ("nested-tuple", "((bool, string), int8)"),
    ("ref", "Ref[uint8]"),
    ("array", "[int16; 3]"),
    ("vector-of-tuples", "Vec[(bool, bool)]"),
    ("generic-struct-instance", "Box[int64]"),
    ("generic-enum-instance", "Opt[uint32]"),
    ("function-type-over-a-tuple", "((int8, int8)) -> int8"),
    ("dyn", "dyn Speak"),
    ("vector-of-dyn", "Vec[dyn Speak]"),
    ("ref-of-dyn", "Ref[dyn Speak]"),
    ("tuple-with-dyn", "(int32, dyn Speak)"),
    ("dyn-of-a-trait-nothing-implements", "dyn Mute"),
];
/// (name, definition with § for the type)
const DEF_PLACES: [(&str, &str); 8] = [
    ("unused-struct-field", "struct Holder { f: § }\n"),
    ("unused-enum-payload", "enum Slot { Full(§), Empty }\n"),
    ("unused-generic-struct-field", "struct GH[A] { a: A, f: § }\n"),
    ("unused-function-parameter", "fn nobody(x: §) -> int32 { 0 }\n"),
    ("unused-trait-method-signature", "trait Unused { fn um(Self, §) -> int32; }\n"),
    ("unused-method-parameter", "struct Owner { n: int32 }\nimpl Owner { fn om(self: Owner, x: §) -> int32 { self.n } }\n"),
    ("field-of-a-struct-that-is-used", "struct Part { n: int32, extra: Opt[§] }\nfn part_n(p: Part) -> int32 { p.n }\n"),
    ("payload-of-a-variant-never-built", "enum Two { Plain(int32), Rich(§) }\nfn two_n(t: Two) -> int32 { match t { Two::Plain(n) => n, Two::Rich(x) => 0 } }\n"),
];

fn signature_program(ty: &str, value: &str, at: &str, impls: &str) -> String {
    let sig = if at == "result" { format!("fn dims(Self) -> {};", ty) } else { format!("fn dims(Self, {}) -> int32;", ty) };
    let method = if at == "result" { format!("fn dims(self: Sq) -> {} {{ {} }}", ty, value) } else { format!("fn dims(self: Sq, x: {}) -> int32 {{ 1 }}", ty) };
    let mut t = format!("{}fn pick8(p: (int8, int8)) -> int8 {{ p.0 }}\ntrait Shape {{ {} }}\nstruct Sq {{ w: int32 }}\n", DECLS, sig);
    if impls != "no-impl" {
        t.push_str(&format!("impl Shape for Sq {{ {} }}\n", method));
    }
    t.push_str("fn count(v: Vec[dyn Shape]) -> int32 { vec_len(v) }\nfn main() {\n    let v: Vec[dyn Shape] = vec_new();\n");
    if impls == "impl-coerced" {
        t.push_str("    let sq = Sq { w: 1 };\n    let d: dyn Shape = sq;\n    let v2 = vec_push(v, d);\n    string_println(int32_to_string(count(v2)));\n");
    } else {
        t.push_str("    string_println(int32_to_string(count(v)));\n");
    }
    t.push_str("}\n");
    t
}

pub struct HelperTypes;

impl Family for HelperTypes {
    fn name(&self) -> &'static str {
        "helper-types"
    }
    fn serves(&self) -> &'static [&'static str] {
        &["C02", "C03", "C04"]
    }
    fn rule(&self) -> &'static str {
        "14 types with generated helpers (tuple, nested tuple, Ref read / written / of a tuple, array read / written / of tuples, vector of tuples, an instance of a generic struct and of a generic enum, a dyn value, a closure, a tuple of refs), each occurring in exactly one place of the program x 15 places (main, a function main calls, an else branch, a match arm, a while body, a called closure, a spawned closure, a function called by a spawned closure, a spawned function, a closure inside a spawned closure, a function used as a value / bound to a local, a method reached only through a dyn value / through a bound, an instance of a generic function); and 8 types occurring only in the signature of a method of a trait used as dyn (as the result / as a parameter) x {no impl, an impl nobody coerces, an impl that is coerced}; oracle: accepted, stage IRs consistent, the Go declares everything it names, and (where the place runs before main ends) the line is printed. distinct = distinct source text"
    }
    fn cases(&self, _tier: Tier) -> Box<dyn Iterator<Item = Value> + '_> {
        let mut v = Vec::new();
        for (p, _, _) in PLACES {
            for (u, _, _) in USES {
                v.push(json!({"place": p, "type": u}));
            }
        }
        for (t, _) in DEF_TYPES {
            for (p, _) in DEF_PLACES {
                v.push(json!({"definition-type": t, "definition": p}));
            }
        }
        for (t, _, _) in SIG_TYPES {
            for at in ["result", "parameter"] {
                for i in SIG_IMPLS {
                    v.push(json!({"signature-type": t, "at": at, "impls": i}));
                }
            }
        }
        Box::new(v.into_iter())
    }
    fn run(&self, case: &Value, ctx: &mut Ctx) -> Report {
        let mut rep = Report::default();
        if let Some(tn) = case["signature-type"].as_str() {
            let (_, ty, value) = SIG_TYPES.iter().find(|(n, _, _)| *n == tn).unwrap();
            let (at, impls) = (case["at"].as_str().unwrap(), case["impls"].as_str().unwrap());
            let text = signature_program(ty, value, at, impls);
            let site = format!("helper-type={};only-in=dyn-trait-method-{};{}", tn, at, impls);
            rep.nontrivial_key = Some(text.clone());
            rep.outcome = Some(site.clone());
            let expected = if impls == "impl-coerced" { "1\n" } else { "0\n" };
            expect_text_program(ctx, &mut rep, "helper-types", case, &site, &text, expected, &["C02"], &["C02"], &["C02"]);
            return rep;
        }
        if let Some(tn) = case["definition-type"].as_str() {
            let (_, ty) = DEF_TYPES.iter().find(|(n, _)| *n == tn).unwrap();
            let pn = case["definition"].as_str().unwrap();
            let (_, def) = DEF_PLACES.iter().find(|(n, _)| *n == pn).unwrap();
            let main = match pn {
                "field-of-a-struct-that-is-used" => "fn main() {\n    string_println(int32_to_string(part_n(Part { n: 4, extra: Opt::Non })))\n}\n",
                "payload-of-a-variant-never-built" => "fn main() {\n    string_println(int32_to_string(two_n(Two::Plain(4))))\n}\n",
                _ => "fn main() {\n    string_println(\"4\")\n}\n",
            };
            let text = format!("{}trait Mute {{ fn mute(Self) -> int32; }}\n{}{}", DECLS, def.replace('§', ty), main);
            let site = format!("helper-type={};only-in-definition={}", tn, pn);
            rep.nontrivial_key = Some(text.clone());
            rep.outcome = Some(site.clone());
            expect_text_program(ctx, &mut rep, "helper-types", case, &site, &text, "4\n", &["C02"], &["C02"], &["C02"]);
            return rep;
        }
        let (pn, un) = (case["place"].as_str().unwrap(), case["type"].as_str().unwrap());
        let (_, tmpl, runs) = PLACES.iter().find(|(n, _, _)| *n == pn).unwrap();
        let (_, stmts, line) = USES.iter().find(|(n, _, _)| *n == un).unwrap();
        let text = format!("{}{}", DECLS, tmpl.replace('§', stmts));
        let site = format!("helper-type={};only-in={}", un, pn);
        rep.nontrivial_key = Some(text.clone());
        rep.outcome = Some(site.clone());
        if *runs {
            expect_text_program(ctx, &mut rep, "helper-types", case, &site, &text, &format!("{}\n", line), &["C02"], &["C02"], &["C02"]);
            return rep;
        }
        // a spawned activation may not get to run before main ends: the Go has to be valid
        let replay = json!({"kind": "text", "text": text, "oracle": "go-valid"});
        let path = ctx.scratch.single_path();
        let comp = match crate::oracle::compile_at(&path, &text) {
            crate::oracle::CompileOutcome::Ok(c) => c,
            crate::oracle::CompileOutcome::Panic(m) => {
                let m = normalise_msg(&m);
                rep.findings.push(Finding { property: "C02", class: "compile.panic".into(), site: format!("{};msg={}", site, m), detail: m, replay });
                return rep;
            }
            crate::oracle::CompileOutcome::Err(e) => {
                let (stage, msg) = describe_err(&e);
                rep.tag(format!("compile:rejected:{}", stage));
                rep.findings.push(Finding { property: "C02", class: format!("compile.rejected.{}", stage), site: format!("{};msg={}", site, normalise_msg(&msg)), detail: msg, replay });
                return rep;
            }
        };
        rep.tag("compile:ok");
        for (stage, msg) in crate::irck::check_all(&comp) {
            rep.findings.push(Finding { property: "C03", class: format!("irck.{}", stage), site: format!("{};msg={}", site, normalise_msg(&msg)), detail: msg, replay: replay.clone() });
        }
        let go = crate::oracle::go_text(&comp).unwrap_or_default();
        drop(comp);
        match crate::projects::run_go(&go, FUEL) {
            Ok(_) => rep.tag("go:valid"),
            Err(m) if m.starts_with("machinery") => rep.tag("machinery:go-unsupported"),
            Err(m) => {
                rep.tag("go:rejected");
                rep.findings.push(Finding { property: "C02", class: m.split(':').next().unwrap_or("go.invalid").to_string(), site: format!("{};goerr={}", site, normalise_msg(&m)), detail: m, replay });
            }
        }
        rep
    }
}
