//! C20 over histories: an editor asks many questions about a project that changes on disk between
//! them. Every answer has to describe the project as it is when the question is asked: it is a
//! function of (the text sent, the files on disk now), not of what was asked or stored before.
//!
//! Exhaustive exploration of every history of at most N events over a small alphabet (10 queries,
//! 4 edits of the files the queried text depends on), run against the real query functions with a
//! real directory; after every query event the answer is compared with the answer a fresh thread
//! gives in a directory that has only ever held the current contents.

use crate::drive::*;
use crate::families::common::*;
use compiler::query::{colon_colon_completions, dot_completions, hover_type};
use serde_json::{Value, json};
use std::path::{Path, PathBuf};

const LIB: [&str; 2] = [
    "package Lib\n\nstruct Point { x: int32 }\nfn get() -> int32 { 1 }\nfn origin() -> Point { Point { x: 0 } }\nfn old_helper() -> unit { () }\n",
    "package Lib\n\nstruct Spot { name: string, flag: bool }\nfn get() -> string { \"s\" }\nfn origin() -> Spot { Spot { name: \"n\", flag: true } }\nfn new_helper() -> unit { () }\n",
];
const SIB: [&str; 2] = ["package Main\n\nfn helper() -> int32 { 1 }\n", "package Main\n\nfn helper() -> bool { true }\nfn extra() -> unit { () }\n"];

/// the texts an editor sends (never written to disk by the harness: the query gets them as text).
/// `@` marks the cursor of the request and is removed.
fn texts() -> Vec<(&'static str, &'static str, String)> {
    let head = "package Main\nimport Lib\n\n";
    let mut v = Vec::new();
    for (variant, pad) in [("a", ""), ("b", "// same program, one more line\n")] {
        let body_hover = |mark: &str| {
            let mut t = format!("{}{}fn main() -> unit {{\n    let v_get = Lib::get();\n    let v_org = Lib::origin();\n    let v_hlp = helper();\n    let _ = v_get;\n    let _ = v_org;\n    let _ = v_hlp;\n    ()\n}}\n", head, pad);
            let at = t.find(mark).unwrap() + 2;
            t.insert(at, '@');
            t
        };
        v.push(("hover-lib-fn-result", variant, body_hover("v_get = ")));
        v.push(("hover-lib-struct-result", variant, body_hover("v_org = ")));
        v.push(("hover-sibling-fn-result", variant, body_hover("v_hlp = ")));
        v.push(("dot-on-lib-struct", variant, format!("{}{}fn main() -> unit {{\n    let v_org = Lib::origin();\n    let _ = v_org.@;\n    ()\n}}\n", head, pad)));
        v.push(("colon-on-lib", variant, format!("{}{}fn main() -> unit {{\n    let _ = Lib::@;\n    ()\n}}\n", head, pad)));
    }
    v
}

#[derive(Clone, Copy, Debug, PartialEq, Eq)]
enum Ev {
    Query(usize),
    Lib(usize),
    Sib(usize),
}

fn alphabet(nq: usize) -> Vec<Ev> {
    let mut v: Vec<Ev> = (0..nq).map(Ev::Query).collect();
    v.extend([Ev::Lib(0), Ev::Lib(1), Ev::Sib(0), Ev::Sib(1)]);
    v
}

fn line_col(text: &str, off: usize) -> (u32, u32) {
    let before = &text[..off];
    (before.matches('\n').count() as u32, (off - before.rfind('\n').map(|i| i + 1).unwrap_or(0)) as u32)
}

pub fn write_disk(root: &Path, lib: usize, sib: usize) {
    std::fs::create_dir_all(root.join("Lib")).ok();
    // an edit touches the file it changes and nothing else (as saving one file in an editor does): a file whose
    // contents stay the same keeps its modification time
    for (path, text) in [(root.join("Lib/lib.gom"), LIB[lib]), (root.join("helper.gom"), SIB[sib])] {
        if std::fs::read_to_string(&path).ok().as_deref() != Some(text) {
            std::fs::write(&path, text).ok();
        }
    }
}

pub fn ask(root: &Path, kind: &str, marked: &str) -> String {
    let off = marked.find('@').unwrap();
    let text = marked.replacen('@', "", 1);
    let (line, col) = line_col(&text, off);
    let path = root.join("main.gom");
    let r = std::panic::catch_unwind(std::panic::AssertUnwindSafe(|| {
        if kind.starts_with("hover") {
            format!("{:?}", hover_type(&path, &text, line, col))
        } else if kind.starts_with("dot") {
            let mut items: Vec<String> = dot_completions(&path, &text, line, col).unwrap_or_default().into_iter().map(|i| format!("{}:{:?}:{:?}", i.name, i.kind, i.detail)).collect();
            items.sort();
            format!("{:?}", items)
        } else {
            let mut items: Vec<String> = colon_colon_completions(&path, &text, line, col).unwrap_or_default().into_iter().map(|i| format!("{}:{:?}:{:?}", i.name, i.kind, i.detail)).collect();
            items.sort();
            format!("{:?}", items)
        }
    }));
    match r {
        Ok(s) => s,
        Err(p) => format!("PANIC {}", normalise_msg(&crate::oracle::panic_message(p))),
    }
}

pub struct QueryHistories;

impl Family for QueryHistories {
    fn name(&self) -> &'static str {
        "query-histories"
    }
    fn serves(&self) -> &'static [&'static str] {
        &["C20"]
    }
    fn rule(&self) -> &'static str {
        "all histories of <= 3 (thorough: <= 4) events over an alphabet of 14: 10 queries (hover on a value whose type comes from an imported package's function / struct / from a function of a sibling file, completion after 'value.' on an imported struct, completion after 'Lib::'; each on two texts that differ in one comment line) and 4 edits on disk (the imported package's file to version A / B: other field names, other result types, other items; the sibling file of the root package to version A / B), each history run in a thread of its own against the real query functions and a real directory; oracle: after every query event the answer equals the answer a fresh thread gives in a directory that has only ever held the current contents (the answers to the 10 queries differ between the disk states, which the run checks first); states = distinct (disk state, multiset of queries asked so far) reached, transitions = events applied. non-trivial = histories in which a query follows an edit that follows a query; distinct = distinct history"
    }
    fn cases(&self, tier: Tier) -> Box<dyn Iterator<Item = Value> + '_> {
        // one case per first event (the worker enumerates the continuations)
        let nq = texts().len();
        let depth = if tier == Tier::Quick { 3 } else { 4 };
        let v: Vec<Value> = (0..alphabet(nq).len()).map(|i| json!({"first": i, "depth": depth})).collect();
        Box::new(v.into_iter())
    }
    fn case_timeout(&self, _tier: Tier) -> u64 {
        600
    }
    fn run(&self, case: &Value, ctx: &mut Ctx) -> Report {
        let mut rep = Report::default();
        let qs = texts();
        let alpha = alphabet(qs.len());
        let first = case["first"].as_u64().unwrap() as usize;
        let depth = case["depth"].as_u64().unwrap() as usize;
        // reference answers: one directory per disk state, written once, asked from fresh threads
        let mut reference: Vec<Vec<String>> = Vec::new();
        for state in 0..4 {
            let (lib, sib) = (state / 2, state % 2);
            let dir = ctx.scratch.fresh_dir(&format!("ref{}", state));
            write_disk(&dir, lib, sib);
            let mut answers = Vec::new();
            for (kind, _, marked) in &qs {
                let (d, k, m) = (dir.clone(), kind.to_string(), marked.clone());
                answers.push(std::thread::spawn(move || ask(&d, &k, &m)).join().unwrap_or_else(|_| "THREAD".into()));
            }
            reference.push(answers);
        }
        // the alphabet is only worth exploring if the edits are visible in the answers
        for q in 0..qs.len() {
            let distinct: std::collections::BTreeSet<&String> = (0..4).map(|s| &reference[s][q]).collect();
            if distinct.len() < 2 {
                rep.tag("machinery:query-blind-to-edits");
                rep.sample = Some(json!({"query": qs[q].0, "answers": (0..4).map(|s| reference[s][q].clone()).collect::<Vec<_>>()}));
                return rep;
            }
        }
        // enumerate histories with this first event
        let mut histories: Vec<Vec<usize>> = vec![vec![first]];
        let mut frontier = histories.clone();
        for _ in 1..depth {
            let mut next = Vec::new();
            for h in &frontier {
                for e in 0..alpha.len() {
                    let mut h2 = h.clone();
                    h2.push(e);
                    next.push(h2);
                }
            }
            histories.extend(next.iter().cloned());
            frontier = next;
        }
        let work: PathBuf = ctx.scratch.fresh_dir("hist");
        let mut states = std::collections::BTreeSet::new();
        let mut reported = std::collections::BTreeSet::new();
        for h in &histories {
            // only histories that end with a query decide anything new
            if !matches!(alpha[*h.last().unwrap()], Ev::Query(_)) {
                continue;
            }
            rep.sub_evaluations += 1;
            write_disk(&work, 0, 0);
            let (w, hh, al, qq, rf) = (work.clone(), h.clone(), alpha.clone(), qs.clone(), reference.clone());
            // a thread per history: whatever the query layer remembers per thread starts empty
            let outcome = std::thread::spawn(move || {
                let (mut lib, mut sib) = (0usize, 0usize);
                let mut asked: Vec<usize> = Vec::new();
                let mut seen = Vec::new();
                for (step, e) in hh.iter().enumerate() {
                    match al[*e] {
                        Ev::Lib(v) => {
                            lib = v;
                            write_disk(&w, lib, sib);
                        }
                        Ev::Sib(v) => {
                            sib = v;
                            write_disk(&w, lib, sib);
                        }
                        Ev::Query(q) => {
                            let got = ask(&w, qq[q].0, &qq[q].2);
                            let want = &rf[lib * 2 + sib][q];
                            asked.push(q);
                            if &got != want {
                                return (seen, Some((step, q, lib, sib, got, want.clone())));
                            }
                        }
                    }
                    let mut a = asked.clone();
                    a.sort();
                    seen.push((lib, sib, a));
                }
                (seen, None)
            })
            .join();
            let (seen, bad) = match outcome {
                Ok(x) => x,
                Err(_) => {
                    rep.tag("machinery:history-thread-died");
                    continue;
                }
            };
            rep.transitions += h.len() as u64;
            for s in seen {
                states.insert(s);
            }
            let spelled: Vec<String> = h
                .iter()
                .map(|e| match alpha[*e] {
                    Ev::Query(q) => format!("ask({}/{})", qs[q].0, qs[q].1),
                    Ev::Lib(v) => format!("write(Lib/lib.gom:={})", ["A", "B"][v]),
                    Ev::Sib(v) => format!("write(helper.gom:={})", ["A", "B"][v]),
                })
                .collect();
            let interesting = {
                // query .. edit .. query
                let kinds: Vec<bool> = h.iter().map(|e| matches!(alpha[*e], Ev::Query(_))).collect();
                (0..kinds.len()).any(|i| kinds[i] && (i + 1..kinds.len()).any(|j| !kinds[j] && (j + 1..kinds.len()).any(|k| kinds[k])))
            };
            if interesting {
                rep.more_keys.push(fnv(&spelled.join(";")));
            }
            match bad {
                None => rep.tag("history:answers-current"),
                Some((step, q, lib, sib, got, want)) => {
                    rep.tag("history:stale-answer");
                    let class = if got.starts_with("PANIC") { "query.panic.history" } else { "query.answer-depends-on-history" };
                    let site = format!("query={};after={}", qs[q].0, spelled[..step].iter().map(|s| s.split('(').next().unwrap_or("")).collect::<Vec<_>>().join(">"));
                    if reported.insert(site.clone()) {
                        rep.findings.push(Finding {
                            property: "C20",
                            class: class.into(),
                            site,
                            detail: format!("history {:?}: event {} on disk state (Lib {}, helper {}) answered {} where a fresh query answers {}", spelled, step, ["A", "B"][lib], ["A", "B"][sib], got, want),
                            replay: json!({"kind": "query-history", "history": spelled, "lib": LIB, "sibling": SIB, "texts": qs.iter().map(|(k, v, t)| (format!("{}/{}", k, v), Value::String(t.clone()))).collect::<serde_json::Map<String, Value>>(), "got": got, "fresh": want}),
                        });
                    }
                }
            }
        }
        rep.states = states.len() as u64;
        rep.outcome = Some(format!("first={:?}", alpha[first]));
        rep
    }
}

fn fnv(s: &str) -> u64 {
    let mut h: u64 = 0xcbf29ce484222325;
    for b in s.bytes() {
        h ^= b as u64;
        h = h.wrapping_mul(0x100000001b3);
    }
    h
}
