//! C19 / C07 / C02: distinct types get distinct helper names - with ordinary names only. Pairs of types
//! that differ only in how a flat sequence is grouped ((1,(2,3),4) against (1,(2,3,4)), a function taking a
//! function against a function taking two arguments) or only in letter case (`Foo` / `foo`) are used
//! together through every kind of generated helper (reference cells, arrays, vectors, dyn vtables, tuple
//! structs, instances of a generic struct / function). Each type alone is the control.

use crate::drive::*;
use crate::families::common::*;
use serde_json::{Value, json};

#[derive(Clone)]
pub struct Shape {
    pub name: String,
    /// the type as written
    pub ty: String,
    /// an expression of the type (§ = a number that tells the two values of a pair apart)
    pub value: String,
    /// int32 read from an expression `@` of the type
    pub read: String,
    /// what `read` gives for § = k
    pub expect: fn(i64) -> i64,
    /// declarations the type needs
    pub decls: &'static str,
}

fn groupings() -> Vec<Shape> {
    // the six ways of grouping four leaves into tuples of width >= 2 with at most one level of nesting per side
    let specs: [(&str, &str, &str, &str); 6] = [
        ("pair-first-of-three", "((int32, int32), int32, int32)", "((§, 2), 3, 4)", "@.0.0 + @.2"),
        ("triple-first-of-two", "((int32, int32, int32), int32)", "((§, 2, 3), 4)", "@.0.0 + @.1"),
        ("pair-middle-of-three", "(int32, (int32, int32), int32)", "(§, (2, 3), 4)", "@.0 + @.2"),
        ("triple-last-of-two", "(int32, (int32, int32, int32))", "(§, (2, 3, 4))", "@.0 + @.1.2"),
        ("pair-last-of-three", "(int32, int32, (int32, int32))", "(§, 2, (3, 4))", "@.0 + @.2.1"),
        ("two-pairs", "((int32, int32), (int32, int32))", "((§, 2), (3, 4))", "@.0.0 + @.1.1"),
    ];
    specs.iter().map(|(n, t, v, r)| Shape { name: n.to_string(), ty: t.to_string(), value: v.to_string(), read: r.to_string(), expect: |k| k + 4, decls: "" }).collect()
}

fn pairs() -> Vec<(Shape, Shape)> {
    let mut out = Vec::new();
    let g = groupings();
    for i in 0..g.len() {
        for j in (i + 1)..g.len() {
            out.push((g[i].clone(), g[j].clone()));
        }
    }
    let st = |name: &str, decls: &'static str| Shape { name: name.to_string(), ty: name.to_string(), value: format!("{} {{ a: § }}", name), read: "@.a".into(), expect: |k| k, decls };
    out.push((st("Foo", "struct Foo { a: int32 }\n"), st("foo", "struct foo { a: int32 }\n")));
    out.push((st("Ab", "struct Ab { a: int32 }\n"), st("AB", "struct AB { a: int32 }\n")));
    let mut in_tuple = |a: &str, da: &'static str, b: &str, db: &'static str| {
        let mk = |n: &str, d: &'static str| Shape { name: format!("tuple-with-{}", n), ty: format!("({}, int32)", n), value: format!("({} {{ a: § }}, 9)", n), read: "@.0.a".into(), expect: |k| k, decls: d };
        out.push((mk(a, da), mk(b, db)));
    };
    in_tuple("Foo", "struct Foo { a: int32 }\n", "foo", "struct foo { a: int32 }\n");
    // function types that read alike once the brackets are gone
    out.push((
        Shape { name: "function-of-a-binary-function".into(), ty: "((int32, int32) -> int32) -> int32".into(), value: "|f: (int32, int32) -> int32| f(§, 2)".into(), read: "@(|p: int32, q: int32| p + q)".into(), expect: |k| k + 2, decls: "" },
        Shape { name: "function-of-a-function-and-a-number".into(), ty: "((int32) -> int32, int32) -> int32".into(), value: "|f: (int32) -> int32, n: int32| f(n) + §".into(), read: "@(|p: int32| p + 1, 1)".into(), expect: |k| k + 2, decls: "" },
    ));
    out.push((
        Shape { name: "function-returning-a-function".into(), ty: "(int32) -> (int32) -> int32".into(), value: "|p: int32| |q: int32| p + q + §".into(), read: "@(1)(1)".into(), expect: |k| k + 2, decls: "" },
        Shape { name: "function-of-a-function".into(), ty: "((int32) -> int32) -> int32".into(), value: "|f: (int32) -> int32| f(2) + §".into(), read: "@(|p: int32| p)".into(), expect: |k| k + 2, decls: "" },
    ));
    out
}

pub const HELPERS: [&str; 9] = ["reference-cell", "array", "vector", "dyn-value", "tuple-struct", "generic-struct-instance", "generic-function-instance", "reference-cell-in-a-generic-function", "enum-payload-instance"];

/// statements using one type through one helper; `i` numbers the locals, `k` marks the value
fn use_through(helper: &str, s: &Shape, i: usize, k: i64) -> (String, String) {
    let v = s.value.replace('§', &k.to_string());
    let t = &s.ty;
    let got = format!("g{}", i);
    let show = format!("    string_println(int32_to_string({}));\n", s.read.replace('@', &got));
    let (decl, body) = match helper {
        "reference-cell" => (String::new(), format!("    let r{i} = ref({v});\n    let {got}: {t} = ref_get(r{i});\n", i = i, v = v, got = got, t = t)),
        "array" => (String::new(), format!("    let a{i} = [{v}, {v}];\n    let {got}: {t} = array_get(a{i}, 1);\n", i = i, v = v, got = got, t = t)),
        "vector" => (String::new(), format!("    let w{i}: Vec[{t}] = vec_push(vec_new(), {v});\n    let {got}: {t} = vec_get(w{i}, 0);\n", i = i, v = v, got = got, t = t)),
        "dyn-value" => {
            let read_self = s.read.replace('@', "self");
            (
                format!("impl Rd for {t} {{ fn rd(self: {t}) -> int32 {{ {r} }} }}\n", t = t, r = read_self),
                format!("    let t{i}: {t} = {v};\n    let d{i}: dyn Rd = t{i};\n    string_println(int32_to_string(Rd::rd(d{i})));\n", i = i, v = v, t = t),
            )
        }
        "tuple-struct" => (String::new(), format!("    let p{i}: ({t}, bool) = ({v}, true);\n    let {got}: {t} = p{i}.0;\n", i = i, v = v, got = got, t = t)),
        "generic-struct-instance" => (String::new(), format!("    let b{i}: Bx[{t}] = Bx {{ v: {v} }};\n    let {got}: {t} = b{i}.v;\n", i = i, v = v, got = got, t = t)),
        "generic-function-instance" => (String::new(), format!("    let {got}: {t} = idg({v});\n", v = v, got = got, t = t)),
        "reference-cell-in-a-generic-function" => (String::new(), format!("    let r{i} = ref({v});\n    let {got}: {t} = getr(r{i});\n", i = i, v = v, got = got, t = t)),
        _ => (String::new(), format!("    let o{i}: Opt[{t}] = Opt::Som({v});\n    let {got}: {t} = match o{i} {{ Opt::Som(x) => x, Opt::Non => {v} }};\n", i = i, v = v, got = got, t = t)),
    };
    let body = if helper == "dyn-value" { body } else { format!("{}{}", body, show) };
    (decl, body)
}

fn program(helper: &str, shapes: &[(&Shape, i64)]) -> (String, String) {
    let mut text = String::from("struct Bx[A] { v: A }\nenum Opt[A] { Som(A), Non }\ntrait Rd { fn rd(Self) -> int32; }\nfn idg[A](x: A) -> A { x }\nfn getr[A](r: Ref[A]) -> A { ref_get(r) }\n");
    let mut decls_seen: Vec<&str> = Vec::new();
    let mut body = String::new();
    let mut expected = String::new();
    for (i, (s, k)) in shapes.iter().enumerate() {
        if !s.decls.is_empty() && !decls_seen.contains(&s.decls) {
            decls_seen.push(s.decls);
            text.push_str(s.decls);
        }
        let (d, b) = use_through(helper, s, i, *k);
        text.push_str(&d);
        body.push_str(&b);
        expected.push_str(&format!("{}\n", (s.expect)(*k)));
    }
    text.push_str(&format!("fn main() -> unit {{\n{}}}\n", body));
    (text, expected)
}

pub struct Shapes;

impl Family for Shapes {
    fn name(&self) -> &'static str {
        "shapes"
    }
    fn serves(&self) -> &'static [&'static str] {
        &["C19", "C07", "C02", "C04"]
    }
    fn rule(&self) -> &'static str {
        "20 pairs of distinct types spelled with ordinary names that differ only in grouping or letter case (all 15 pairs of the six groupings of four int32 leaves into nested tuples; structs Foo / foo, Ab / AB, (Foo, int32) / (foo, int32); a function of a binary function against a function of a function and a number; a function returning a function against a function of a function) x 9 generated helpers (reference cell, array, vector, dyn value with an impl per type, tuple struct, instance of a generic struct / function / enum, reference cell read inside a generic function): both types used in one program, each value read back and printed; each type alone is the control (a rejected control makes the pair inapplicable, which is counted). oracle: valid Go, the two values printed. non-trivial = pairs whose controls both run"
    }
    fn cases(&self, _tier: Tier) -> Box<dyn Iterator<Item = Value> + '_> {
        let n = pairs().len();
        let mut v = Vec::new();
        for p in 0..n {
            for h in HELPERS {
                v.push(json!({"pair": p, "helper": h}));
            }
        }
        Box::new(v.into_iter())
    }
    fn run(&self, case: &Value, ctx: &mut Ctx) -> Report {
        let mut rep = Report::default();
        let (a, b) = pairs()[case["pair"].as_u64().unwrap() as usize].clone();
        let helper = case["helper"].as_str().unwrap();
        let site = format!("helper={};types={}+{}", helper, a.name, b.name);
        // controls: each type alone must compile and run, else the pair says nothing
        for (s, k) in [(&a, 10), (&b, 20)] {
            let (text, expected) = program(helper, &[(s, k)]);
            let mut sub = Report::default();
            expect_text_program(ctx, &mut sub, "shapes", case, &format!("{};control={}", site, s.name), &text, &expected, &["C19"], &["C19"], &["C19"]);
            if !sub.tags.iter().any(|t| t == "agree") {
                rep.tag(format!("inapplicable:control-does-not-run:{}:{}", helper, s.name));
                rep.sample = Some(json!({"site": site, "control": s.name, "text": text, "tags": sub.tags, "findings": sub.findings.iter().map(|f| format!("{} {}", f.class, f.detail)).collect::<Vec<_>>()}));
                return rep;
            }
        }
        let (text, expected) = program(helper, &[(&a, 10), (&b, 20)]);
        rep.nontrivial_key = Some(text.clone());
        rep.outcome = Some(site.clone());
        expect_text_program(ctx, &mut rep, "shapes", case, &site, &text, &expected, &["C19", "C07", "C01"], &["C19", "C07", "C02"], &["C19"]);
        rep
    }
}
