//! The command-line entry points (`run`, `check`, `build`, `link`) as a user starts them: a real
//! process per call, the real exit status and the real stderr. The library-level families call
//! `pipeline::compile` and friends directly and never see how the binary renders a diagnostic or
//! how much stack its main thread has.
//!
//! (a) fault placement: one fault of each diagnostic-carrying stage (parser, lowering, typer,
//!     match compilation) placed in the entry file, in a second file of Main, or in a file of an
//!     imported package, with the faulty file and the entry file padded or not (so that offsets of
//!     one text do / do not exist in the other) with ASCII or multi-byte padding; (b) every fixed
//!     project through `build`* + `link` in its first topological order, compared with the
//!     library verdict and text; (c) the nesting and length ladders through `run`.

use crate::drive::*;
use crate::families::common::*;
use crate::projects::*;
use serde_json::{Value, json};
use std::path::{Path, PathBuf};
use std::process::Command;

fn cli_bin() -> PathBuf {
    let p = std::env::var("GOMLMC_CLI").unwrap_or_default();
    let pb = PathBuf::from(&p);
    if p.is_empty() || !pb.is_file() {
        // a missing binary is a machinery failure: die loudly (this family has no crash properties)
        eprintln!("machinery: GOMLMC_CLI does not name the goml binary ({:?})", p);
        std::process::abort();
    }
    pb
}

pub struct CliOut {
    pub code: Option<i32>,
    pub stdout: String,
    pub stderr: String,
}

pub fn run_cli(cwd: &Path, args: &[&str], timeout_s: u64) -> CliOut {
    use std::io::Read;
    let mut child = Command::new(cli_bin())
        .args(args)
        .current_dir(cwd)
        .env("PATH", "/nonexistent") // no Go toolchain, no yaegi: `run` stops after compiling
        .env("RUST_BACKTRACE", "0")
        .stdin(std::process::Stdio::null())
        .stdout(std::process::Stdio::piped())
        .stderr(std::process::Stdio::piped())
        .spawn()
        .expect("spawn goml");
    let mut so = child.stdout.take().unwrap();
    let mut se = child.stderr.take().unwrap();
    let t1 = std::thread::spawn(move || {
        let mut s = Vec::new();
        let _ = so.read_to_end(&mut s);
        String::from_utf8_lossy(&s).into_owned()
    });
    let t2 = std::thread::spawn(move || {
        let mut s = Vec::new();
        let _ = se.read_to_end(&mut s);
        String::from_utf8_lossy(&s).into_owned()
    });
    let start = std::time::Instant::now();
    let code = loop {
        match child.try_wait() {
            Ok(Some(st)) => break st.code(),
            Ok(None) => {
                if start.elapsed().as_secs() > timeout_s {
                    let _ = child.kill();
                    let _ = child.wait();
                    break Some(-999);
                }
                std::thread::sleep(std::time::Duration::from_millis(2));
            }
            Err(_) => break None,
        }
    };
    CliOut { code, stdout: t1.join().unwrap_or_default(), stderr: t2.join().unwrap_or_default() }
}

/// how a process ended, from the point of view of C04
fn ending(o: &CliOut) -> &'static str {
    match o.code {
        Some(0) => "exit0",
        Some(1) => "exit1",
        Some(2) => "exit2-usage",
        Some(101) => "panic",
        Some(-999) => "timeout",
        Some(_) => "other-exit",
        None => "signal",
    }
}

const FAULTS: [(&str, &str, &str); 11] = [
    // (kind, a top-level item whose first line carries the fault, stage that reports it)
    ("parse", "fn broken() -> int32 { 1 + }", "parser"),
    ("parse-non-ascii", "fn broken() -> string { \"é\" + }", "parser"),
    // the faulty line is long and made of multi-byte characters, shifted by 0, 1, 2 bytes: whatever byte
    // offset a message excerpt or a column computation cuts at, one of them has it inside a character
    ("parse-long-line-3-byte-chars", "fn broken() -> string { \"日本語のメッセージです。日本語のメッセージです。日本語のメッセージです。日本語のメッセージです。日本語のメッセージです。\" + }", "parser"),
    ("parse-long-line-3-byte-chars-shift-1", "fn broken() -> string { \"a日本語のメッセージです。日本語のメッセージです。日本語のメッセージです。日本語のメッセージです。日本語のメッセージです。\" + }", "parser"),
    ("parse-long-line-3-byte-chars-shift-2", "fn broken() -> string { \"ab日本語のメッセージです。日本語のメッセージです。日本語のメッセージです。日本語のメッセージです。日本語のメッセージです。\" + }", "parser"),
    ("parse-long-line-2-byte-chars", "fn broken() -> string { \"éééééééééééééééééééééééééééééééééééééééééééééééééééééééééééééééééééééééééééééééééééé\" + }", "parser"),
    ("parse-long-line-2-byte-chars-shift-1", "fn broken() -> string { \"aéééééééééééééééééééééééééééééééééééééééééééééééééééééééééééééééééééééééééééééééééééé\" + }", "parser"),
    ("lower-long-line-4-byte-chars", "fn broken() -> int32 { \"🙂🙂🙂🙂🙂🙂🙂🙂🙂🙂🙂🙂🙂🙂🙂🙂🙂🙂🙂🙂🙂🙂🙂🙂🙂🙂🙂🙂🙂🙂\"(2) }", "lower"),
    ("lower", "fn broken() -> int32 { 1(2) }", "lower"),
    ("typer", "fn broken() -> int32 { true }", "typer"),
    ("match-compile", "fn broken(k: int32) -> int32 { match k { 1 => 1 } }", "compile"),
];
const PLACES: [&str; 3] = ["entry", "second-file-of-main", "imported-package"];
const PADS: [(&str, usize); 3] = [("none", 0), ("ascii", 40), ("multibyte", 40)];

fn pad(kind: &str, n: usize) -> String {
    let line = if kind == "multibyte" { "// ééééééééééééééééééééééééééééééééééééééééééééééééééééééééééééééééééééé 文字 🙂\n" } else { "// padding padding padding padding padding padding padding padding padding\n" };
    line.repeat(n)
}

struct Placed {
    files: Vec<(String, String)>,
    fault_file: String,
    fault_line: usize,
}

fn place(fault: &str, placing: &str, fault_pad: (&str, usize), entry_pad: (&str, usize)) -> Placed {
    let item = FAULTS.iter().find(|f| f.0 == fault).unwrap().1;
    let fp = pad(fault_pad.0, fault_pad.1);
    let ep = pad(entry_pad.0, entry_pad.1);
    let main_body = "fn main() { string_println(int32_to_string(A::f() + helper())) }\n";
    let (mut main, mut util, mut lib) = (format!("package Main\nimport A\n\n{}{}", ep, main_body), "package Main\n\nfn helper() -> int32 { 1 }\n".to_string(), "package A\n\nfn f() -> int32 { 1 }\n".to_string());
    let (fault_file, fault_line);
    match placing {
        "entry" => {
            // the fault comes after its own padding, at the end of the entry file
            main = format!("package Main\nimport A\n\n{}{}{}{}\n", ep, main_body, fp, item);
            fault_file = "main.gom";
            fault_line = main[..main.rfind(item).unwrap()].matches('\n').count() + 1;
        }
        "second-file-of-main" => {
            util = format!("package Main\n\nfn helper() -> int32 {{ 1 }}\n{}{}\n", fp, item);
            fault_file = "util.gom";
            fault_line = util[..util.rfind(item).unwrap()].matches('\n').count() + 1;
        }
        _ => {
            lib = format!("package A\n\nfn f() -> int32 {{ 1 }}\n{}{}\n", fp, item);
            fault_file = "A/lib.gom";
            fault_line = lib[..lib.rfind(item).unwrap()].matches('\n').count() + 1;
        }
    }
    Placed { files: vec![("main.gom".into(), main), ("util.gom".into(), util), ("A/lib.gom".into(), lib)], fault_file: fault_file.into(), fault_line }
}

/// every `<path>.gom:[ ]L:C` in the text
fn positions(text: &str) -> Vec<(String, usize, usize)> {
    let mut out = Vec::new();
    let b = text.as_bytes();
    let mut i = 0;
    while let Some(k) = text[i..].find(".gom:") {
        let end_path = i + k + 4;
        // path = maximal run of non-space characters ending here
        let start_path = text[..end_path].rfind(|c: char| c.is_whitespace()).map(|x| x + 1).unwrap_or(0);
        let mut j = end_path + 1;
        if j < b.len() && b[j] == b' ' {
            j += 1;
        }
        let num = |j: &mut usize| -> Option<usize> {
            let s = *j;
            while *j < b.len() && b[*j].is_ascii_digit() {
                *j += 1;
            }
            if *j > s { text[s..*j].parse().ok() } else { None }
        };
        if let Some(l) = num(&mut j) {
            if j < b.len() && b[j] == b':' {
                j += 1;
                if let Some(c) = num(&mut j) {
                    out.push((text[start_path..end_path].to_string(), l, c));
                }
            }
        }
        i = end_path + 1;
    }
    out
}

pub struct Cli;

impl Family for Cli {
    fn name(&self) -> &'static str {
        "cli"
    }
    fn serves(&self) -> &'static [&'static str] {
        &["C04", "C14", "C15"]
    }
    fn crash_properties(&self) -> &'static [&'static str] {
        &[]
    }
    fn case_timeout(&self, _tier: Tier) -> u64 {
        180
    }
    fn rule(&self) -> &'static str {
        "the goml binary built from /repo, one process per call, no Go toolchain on PATH. (d) rebuilds: chain / diamond / triangle x 18 kinds of interface edit and a body-only edit of the leaf library: build all + link, edit, build all again in dependency order into the same directory + link: must succeed and leave the same .interface / .core files and Go text as a build of the edited sources into an empty directory. (a) fault placement: 11 faults (parse error, parse error after a multi-byte literal, parse error on a line of 60-90 three-byte / two-byte characters shifted by 0-2 bytes, lowering error on a line of four-byte characters, lowering error, type error, match-compilation error) x 3 places (entry file, second file of Main, file of an imported package) x 3 paddings of the faulty file x 3 paddings of the entry file (none / 40 ASCII lines / 40 lines of 2-, 3- and 4-byte characters), through `run`; oracle: exit status 1, no panic, no signal, at least one `error` line, and every `<file>.gom:L:C` printed names the file that contains the fault and a position on the fault's line inside that file. (b) the fixed multi-package projects (corpus, generated, ill-typed, not-a-DAG, many-diagnostics) through `build` per package in the first topological order and `link`: every process ends with status 0 or 1, `link` succeeds iff the library link succeeds and writes the same Go text, and a failing step fails where the library fails. (c) the 16 nesting ladders (depth <= 64 / 128) and the 12 length ladders (<= 512 / 2048; quick also runs two of them at 2048) through `run`: the process never dies of a signal (stack overflow) or panics. non-trivial = cases in which the binary reported at least one diagnostic; distinct = distinct case"
    }
    fn cases(&self, tier: Tier) -> Box<dyn Iterator<Item = Value> + '_> {
        let mut v = Vec::new();
        for f in FAULTS {
            for p in PLACES {
                for fp in PADS {
                    for ep in PADS {
                        v.push(json!({"kind": "fault", "fault": f.0, "place": p, "fault_pad": fp.0, "entry_pad": ep.0}));
                    }
                }
            }
        }
        for i in 0..cli_projects().len() {
            v.push(json!({"kind": "project", "project": i}));
        }
        v.extend(rebuild_cases(tier));
        let maxd = if tier == Tier::Quick { 64 } else { 128 };
        for k in crate::families::text::LADDERS {
            let mut d = 16;
            while d <= maxd {
                v.push(json!({"kind": "ladder", "ladder": k, "depth": d}));
                d *= 2;
            }
        }
        let maxb = if tier == Tier::Quick { 512 } else { 2048 };
        for k in crate::families::text::BREADTH_LADDERS {
            let mut d = 128;
            while d <= maxb {
                v.push(json!({"kind": "ladder", "ladder": k, "depth": d}));
                d *= 2;
            }
        }
        if tier == Tier::Quick {
            // two long bodies beyond what an 8 MiB main-thread stack survives
            v.push(json!({"kind": "ladder", "ladder": "let-sequence", "depth": 2048}));
            v.push(json!({"kind": "ladder", "ladder": "and-chain", "depth": 2048}));
        }
        Box::new(v.into_iter())
    }
    fn run(&self, case: &Value, ctx: &mut Ctx) -> Report {
        match case["kind"].as_str().unwrap() {
            "fault" => fault_case(case, ctx),
            "project" => project_case(case, ctx),
            "rebuild" => rebuild_case(case, ctx),
            _ => ladder_case(case, ctx),
        }
    }
}

/// (d) rebuilding into a directory that already holds artifacts: the project is built and linked, one library is edited,
/// every package is built again in dependency order into the same directory, and linked: that must succeed and leave
/// the same files and the same Go text as building the edited sources into an empty directory
fn rebuild_cases(tier: Tier) -> Vec<Value> {
    let mut v = Vec::new();
    for g in ["chain", "diamond", "triangle"] {
        for k in crate::families::staleness::KINDS {
            if k == "enum-variant-removed-used-by-b" {
                continue;
            }
            for variant in [2u64, 1] {
                if tier == Tier::Quick && (g != "chain" && !matches!(k, "fn-added" | "struct-field-retyped" | "impl-removed") || variant == 1 && k != "fn-added") {
                    continue;
                }
                v.push(json!({"kind": "rebuild", "graph": g, "edit": k, "variant": variant}));
            }
        }
    }
    v
}

fn rebuild_case(case: &Value, ctx: &mut Ctx) -> Report {
    use crate::families::staleness::{graph, lib_source, main_source};
    let mut rep = Report::default();
    let (gname, kind, variant) = (case["graph"].as_str().unwrap(), case["edit"].as_str().unwrap(), case["variant"].as_u64().unwrap() as u8);
    let g = graph(gname);
    let site = format!("rebuild;graph={};edit={};variant={}", gname, kind, if variant == 2 { "interface" } else { "body-only" });
    rep.outcome = Some(site.clone());
    rep.nontrivial_key = Some(site.clone());
    // dependencies first: the graphs list a package before what it depends on
    let order: Vec<&str> = g.iter().rev().map(|(n, _)| *n).collect();
    let leaf = *order.first().unwrap();
    let write = |root: &Path, leaf_variant: u8| {
        for (name, deps) in &g {
            let (path, src) = if *name == "Main" { (root.join("main.gom"), main_source(deps, &[])) } else { (root.join(name).join("lib.gom"), lib_source(name, deps, if *name == leaf { leaf_variant } else { 0 }, kind, false)) };
            std::fs::create_dir_all(path.parent().unwrap()).ok();
            // only what changes is written again
            if std::fs::read_to_string(&path).ok().as_deref() != Some(src.as_str()) {
                std::fs::write(&path, src).ok();
            }
        }
    };
    let replay = json!({"kind": "cli-rebuild", "graph": gname, "edit": kind, "variant": variant, "order": order});
    // build every package in order and link; the Go text, or where it stopped
    let build_all = |root: &Path, rep: &mut Report| -> Result<String, String> {
        for name in &order {
            let input = if *name == "Main" { "main.gom".to_string() } else { format!("{}/lib.gom", name) };
            let outp = format!("out/{}", name);
            let args = ["build", "--package", name, "--interface-path", "out", "--output", outp.as_str(), "--input", input.as_str()];
            let o = run_cli(root, &args, 120);
            rep.transitions += 1;
            if o.code != Some(0) {
                return Err(format!("goml {} ended with {:?}: {}", args.join(" "), o.code, o.stderr.chars().take(300).collect::<String>()));
            }
        }
        let mut args: Vec<String> = vec!["link".into(), "--output".into(), "out/main.go".into()];
        for name in &order {
            args.push("--input".into());
            args.push(format!("out/{}.core", name));
        }
        let a: Vec<&str> = args.iter().map(|s| s.as_str()).collect();
        let o = run_cli(root, &a, 120);
        rep.transitions += 1;
        if o.code != Some(0) {
            return Err(format!("goml {} ended with {:?}: {}", args.join(" "), o.code, o.stderr.chars().take(300).collect::<String>()));
        }
        std::fs::read_to_string(root.join("out/main.go")).map_err(|e| e.to_string())
    };
    let root = ctx.scratch.fresh_dir("cli-rebuild");
    std::fs::create_dir_all(root.join("out")).ok();
    write(&root, 0);
    if let Err(e) = build_all(&root, &mut rep) {
        rep.tag("machinery:rebuild-template-does-not-build");
        rep.sample = Some(json!({"site": site, "error": e}));
        return rep;
    }
    write(&root, variant);
    let again = build_all(&root, &mut rep);
    let fresh_root = ctx.scratch.fresh_dir("cli-rebuild-fresh");
    std::fs::create_dir_all(fresh_root.join("out")).ok();
    write(&fresh_root, variant);
    let fresh = build_all(&fresh_root, &mut rep);
    match (&again, &fresh) {
        (Ok(a), Ok(f)) => {
            if a != f {
                for p in ["C14", "C15"] {
                    rep.findings.push(Finding { property: p, class: "cli.rebuild-links-another-text".into(), site: site.clone(), detail: "rebuilding every package into the directory of the earlier build links a Go text that differs from building the same sources into an empty directory".into(), replay: replay.clone() });
                }
            }
            for name in &order {
                for ext in ["interface", "core"] {
                    let (x, y) = (std::fs::read(root.join(format!("out/{}.{}", name, ext))).unwrap_or_default(), std::fs::read(fresh_root.join(format!("out/{}.{}", name, ext))).unwrap_or_default());
                    if x != y {
                        for p in ["C14", "C15"] {
                            rep.findings.push(Finding { property: p, class: "cli.rebuild-leaves-another-artifact".into(), site: format!("{};artifact={}.{}", site, name, ext), detail: format!("out/{}.{} after the rebuild differs from the file a build into an empty directory writes", name, ext), replay: replay.clone() });
                        }
                    }
                }
            }
            if rep.findings.is_empty() {
                rep.tag("rebuild:same-as-a-fresh-build");
            }
        }
        (Err(e), Ok(_)) => {
            for p in ["C14", "C15"] {
                rep.findings.push(Finding { property: p, class: "cli.rebuild-fails".into(), site: site.clone(), detail: format!("every package was rebuilt in dependency order into the directory of the earlier build: {}", e), replay: replay.clone() });
            }
        }
        (_, Err(e)) => {
            rep.tag("machinery:rebuild-edited-sources-do-not-build");
            rep.sample = Some(json!({"site": site, "error": e}));
        }
    }
    rep
}

fn cli_projects() -> Vec<Project> {
    let mut v = corpus_projects();
    v.extend(generated_projects());
    v.extend(erroneous_projects());
    v
}

fn death(rep: &mut Report, o: &CliOut, site: &str, what: &str, replay: Value) -> bool {
    let e = ending(o);
    rep.tag(format!("ending:{}", e));
    let panicked = o.stderr.contains("panicked at") || o.stderr.contains("has overflowed its stack");
    if matches!(e, "panic" | "signal" | "timeout" | "other-exit") || panicked {
        let first = o.stderr.lines().find(|l| l.contains("panicked") || l.contains("overflowed")).unwrap_or("").to_string();
        let msg = o.stderr.lines().skip_while(|l| !l.contains("panicked")).nth(1).unwrap_or("").to_string();
        rep.findings.push(Finding {
            property: "C04",
            class: format!("cli.{}", if o.stderr.contains("overflowed its stack") { "stack-overflow" } else { e }),
            site: format!("{};msg={}", site, normalise_msg(&msg)),
            detail: format!("{}: the process ended with {:?}: {} {}", what, o.code, first.chars().take(200).collect::<String>(), msg),
            replay,
        });
        return true;
    }
    false
}

fn fault_case(case: &Value, ctx: &mut Ctx) -> Report {
    let mut rep = Report::default();
    let s = |k: &str| case[k].as_str().unwrap();
    let padn = |k: &str| PADS.iter().find(|p| p.0 == k).unwrap().clone();
    let placed = place(s("fault"), s("place"), padn(s("fault_pad")), padn(s("entry_pad")));
    let root = ctx.scratch.fresh_dir("cli-fault");
    for (f, src) in &placed.files {
        let p = root.join(f);
        std::fs::create_dir_all(p.parent().unwrap()).unwrap();
        std::fs::write(p, src).unwrap();
    }
    let o = run_cli(&root, &["run", "main.gom"], 60);
    let site = format!("fault={};place={}", s("fault"), s("place"));
    let replay = json!({"kind": "cli", "args": ["run", "main.gom"], "files": placed.files, "fault_file": placed.fault_file, "fault_line": placed.fault_line});
    rep.outcome = Some(format!("{}|{}", site, ending(&o)));
    rep.sample = Some(json!({"site": site, "code": o.code, "stderr": o.stderr.chars().take(600).collect::<String>()}));
    if death(&mut rep, &o, &site, "goml run main.gom", replay.clone()) {
        return rep;
    }
    if o.code != Some(1) || !o.stderr.contains("error") {
        rep.findings.push(Finding {
            property: "C04",
            class: "cli.fault-not-reported".into(),
            site: site.clone(),
            detail: format!("a project with a {} fault in {} ended with status {:?} and stderr {:?}", s("fault"), placed.fault_file, o.code, o.stderr.chars().take(200).collect::<String>()),
            replay: replay.clone(),
        });
        return rep;
    }
    rep.nontrivial_key = Some(format!("{:?}", case));
    let pos = positions(&o.stderr);
    rep.tag(format!("positions:{}", pos.len().min(3)));
    for (path, l, c) in pos {
        let named = root.join(&path);
        let text = std::fs::read_to_string(&named).or_else(|_| std::fs::read_to_string(&path)).unwrap_or_default();
        let lines: Vec<&str> = text.split('\n').collect();
        let inside = l >= 1 && l <= lines.len() && c >= 1 && c <= lines[l - 1].chars().count().max(lines[l - 1].len()) + 1;
        let right_file = path.ends_with(&placed.fault_file);
        // the fault's item may span two lines (attribute + struct)
        let right_line = l >= placed.fault_line && l <= placed.fault_line + 1;
        if !(inside && right_file && right_line) {
            rep.findings.push(Finding {
                property: "C04",
                class: if !inside { "cli.position-outside-text".into() } else if !right_file { "cli.position-in-wrong-file".into() } else { "cli.position-on-wrong-line".to_string() },
                site: site.clone(),
                detail: format!("the fault is on line {} of {}; the binary printed {}:{}:{}", placed.fault_line, placed.fault_file, path, l, c),
                replay: replay.clone(),
            });
            break;
        }
        rep.tag("position:exact");
    }
    rep
}

fn project_case(case: &Value, ctx: &mut Ctx) -> Report {
    let mut rep = Report::default();
    let projs = cli_projects();
    let proj = &projs[case["project"].as_u64().unwrap() as usize];
    let root = ctx.scratch.fresh_dir("cli-proj");
    let lib_out = ctx.scratch.fresh_dir("cli-lib-out");
    let order0: Vec<usize> = (0..proj.files.len()).collect();
    materialize(&root, proj, &order0);
    let pkgs = packages(proj);
    let site = format!("project={}", proj.name);
    let replay = json!({"kind": "cli-project", "project": proj.name, "files": proj.files});
    rep.outcome = Some(site.clone());
    // `run` on the entry file
    let o = run_cli(&root, &["run", "--dump-go", "main.gom"], 120);
    if death(&mut rep, &o, &site, "goml run --dump-go main.gom", replay.clone()) {
        return rep;
    }
    let (w, _) = whole(&root);
    let lib_ok = matches!(w, Built::Ok { .. });
    // status 0 needs a Go toolchain; without one a successful compile prints the dump and fails to execute
    let cli_compiled = o.stdout.contains("package main");
    if lib_ok != cli_compiled {
        rep.findings.push(Finding { property: "C04", class: "cli.run-disagrees-with-library".into(), site: site.clone(), detail: format!("library compile ok = {}, binary printed a Go dump = {} (status {:?})", lib_ok, cli_compiled, o.code), replay: replay.clone() });
    }
    if !lib_ok {
        rep.nontrivial_key = Some(site.clone());
        if o.code != Some(1) || !o.stderr.contains("error") {
            rep.findings.push(Finding { property: "C04", class: "cli.fault-not-reported".into(), site: site.clone(), detail: format!("the library rejects the project; the binary ended with {:?} and stderr {:?}", o.code, o.stderr.chars().take(200).collect::<String>()), replay: replay.clone() });
        }
    }
    // build each package, then link
    let Some(order) = topo_orders(&pkgs).into_iter().next() else {
        rep.tag("no-topological-order");
        return rep;
    };
    let lib = separate(&root, &lib_out, &pkgs, &order, false);
    let out = root.join("out");
    let mut failed_at: Option<String> = None;
    for name in &order {
        let pkg = pkgs.iter().find(|p| &p.name == name).unwrap();
        let mut args: Vec<String> = vec!["build".into(), "--package".into(), name.clone(), "--interface-path".into(), "out".into(), "--output".into(), format!("out/{}", name)];
        for f in &pkg.files {
            args.push("--input".into());
            args.push(f.clone());
        }
        let a: Vec<&str> = args.iter().map(|s| s.as_str()).collect();
        let o = run_cli(&root, &a, 120);
        rep.transitions += 1;
        if death(&mut rep, &o, &site, &format!("goml {}", args.join(" ")), replay.clone()) {
            return rep;
        }
        if o.code != Some(0) {
            failed_at = Some(name.clone());
            break;
        }
    }
    let mut cli_go: Option<String> = None;
    if failed_at.is_none() {
        let mut args: Vec<String> = vec!["link".into(), "--output".into(), "out/main.go".into()];
        for name in &order {
            args.push("--input".into());
            args.push(format!("out/{}.core", name));
        }
        let a: Vec<&str> = args.iter().map(|s| s.as_str()).collect();
        let o = run_cli(&root, &a, 120);
        rep.transitions += 1;
        if death(&mut rep, &o, &site, &format!("goml {}", args.join(" ")), replay.clone()) {
            return rep;
        }
        if o.code == Some(0) {
            cli_go = std::fs::read_to_string(out.join("main.go")).ok();
        } else {
            failed_at = Some("link".into());
        }
    }
    match (&lib.built, &cli_go) {
        (Built::Ok { go }, Some(g)) => {
            if go != g {
                for p in ["C14", "C15"] {
                    rep.findings.push(Finding { property: p, class: "cli.link-text-differs-from-library".into(), site: site.clone(), detail: "the Go text written by `goml link` differs from the library's link of the same sources".into(), replay: replay.clone() });
                }
            } else {
                rep.tag("link:same-text-as-library");
            }
        }
        (Built::Ok { .. }, None) => {
            for p in ["C14", "C15"] {
                rep.findings.push(Finding { property: p, class: "cli.rejects-what-library-links".into(), site: site.clone(), detail: format!("the library builds and links the project; the binary failed at {:?}", failed_at), replay: replay.clone() });
            }
        }
        (Built::Err { .. }, Some(_)) => {
            for p in ["C14", "C15"] {
                rep.findings.push(Finding { property: p, class: "cli.links-what-library-rejects".into(), site: site.clone(), detail: "the library rejects the project; `goml build`/`link` succeeded".into(), replay: replay.clone() });
            }
        }
        (Built::Err { .. }, None) => rep.tag("both-rejected"),
        (Built::Panic(m), _) => {
            rep.tag("library-panic");
            rep.sample = Some(json!({"library_panic": m}));
        }
    }
    rep
}

fn ladder_case(case: &Value, ctx: &mut Ctx) -> Report {
    let mut rep = Report::default();
    let kind = case["ladder"].as_str().unwrap();
    let d = case["depth"].as_u64().unwrap() as usize;
    let Some(t) = crate::families::text::ladder_text(kind, d) else { return rep };
    let root = ctx.scratch.fresh_dir("cli-ladder");
    std::fs::write(root.join("main.gom"), &t).unwrap();
    let o = run_cli(&root, &["run", "main.gom"], 170);
    let site = format!("ladder={}", kind);
    rep.outcome = Some(format!("{}@{}|{}", kind, d, ending(&o)));
    rep.sample = Some(json!({"ladder": kind, "depth": d, "code": o.code, "stderr": o.stderr.chars().take(300).collect::<String>()}));
    if o.stderr.contains("error") {
        rep.nontrivial_key = Some(format!("{}@{}", kind, d));
    }
    death(&mut rep, &o, &site, &format!("goml run on the {} ladder of size {}", kind, d), json!({"kind": "cli", "args": ["run", "main.gom"], "files": [["main.gom", t]]}));
    rep
}
