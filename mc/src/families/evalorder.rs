//! C09 (sequential part): an effect probe in every operand position of every operator and
//! constructor form; full truth tables of && / || combinations; call argument order incl. callee
//! expressions and method receivers; struct-literal field order; while-condition re-evaluation.

use crate::drive::*;
use crate::families::common::*;
use crate::ug::ast::*;
use crate::ug::build::*;
use serde_json::{Value, json};

fn tb(k: i128, val: bool) -> E {
    call("tB", vec![int(k), E::Bool(val)])
}

/// leaves of a formula that hold the probing call inside another expression form
const LEAF_FORMS: [&str; 9] = ["field-of-call", "component-of-tuple-of-call", "field-of-field-of-call", "comparison-of-call", "if-of-call", "match-of-call", "block-of-call", "closure-applied", "vector-read-of-call"];

fn leaf_of(form: &str, k: i128, val: bool) -> E {
    let b = E::Bool(val);
    match form {
        "field-of-call" => E::Field(Box::new(call("tW", vec![int(k), b])), "ok".into()),
        // (a component of a call result is not accepted: the documented inference limit)
        "component-of-tuple-of-call" => E::Proj(Box::new(E::Tuple(vec![tb(k, val), int(k)])), 0),
        "field-of-field-of-call" => E::Field(Box::new(E::Field(Box::new(call("tWW", vec![int(k), b])), "w".into())), "ok".into()),
        "comparison-of-call" => bin(BinOp::Eq, tb(k, val), E::Bool(true)),
        "if-of-call" => if_(tb(k, val), E::Bool(true), E::Bool(false)),
        "match-of-call" => E::Match(Box::new(tb(k, val)), vec![(Pat::Bool(true), E::Bool(true)), (Pat::Bool(false), E::Bool(false))]),
        "block-of-call" => if_(E::Bool(true), block(vec![], Some(tb(k, val))), E::Bool(false)),
        "closure-applied" => E::Call(Box::new(E::Paren(Box::new(E::Closure(vec![], Box::new(tb(k, val)))))), vec![]),
        _ => bi("vec_get", vec![call("tV", vec![int(k), b]), int(0)]),
    }
}

/// boolean formula shapes over three probed leaves
const FORMULAS: [&str; 10] = ["a&&b", "a||b", "(a&&b)||c", "a&&(b||c)", "(a||b)&&c", "a||(b&&c)", "!(a&&b)", "!a||b", "a&&b&&c", "a||b||c"];

fn formula(name: &str, a: E, b: E, c: E) -> E {
    let and = |x, y| bin(BinOp::And, x, y);
    let or = |x, y| bin(BinOp::Or, x, y);
    let not = |x| E::Unary(UnOp::Not, Box::new(x));
    match name {
        "a&&b" => and(a, b),
        "a||b" => or(a, b),
        "(a&&b)||c" => or(and(a, b), c),
        "a&&(b||c)" => and(a, or(b, c)),
        "(a||b)&&c" => and(or(a, b), c),
        "a||(b&&c)" => or(a, and(b, c)),
        "!(a&&b)" => not(and(a, b)),
        "!a||b" => or(not(a), b),
        "a&&b&&c" => and(and(a, b), c),
        _ => or(or(a, b), c),
    }
}

fn cases_list() -> Vec<Value> {
    let mut v = Vec::new();
    for op in BinOp::ALL {
        for ty in ["int32", "int8", "string", "bool"] {
            v.push(json!({"kind": "binop", "op": op.sym(), "ty": ty}));
        }
    }
    for f in FORMULAS {
        for bits in 0..8 {
            for pos in ["let", "if-cond", "while-cond", "arg", "return"] {
                v.push(json!({"kind": "truth", "formula": f, "bits": bits, "pos": pos}));
            }
        }
    }
    // the same truth tables with leaves that are not calls themselves but hold one: a field / a component / a field of a
    // field of a call's result, a comparison, a branch, a match, a block, a closure applied on the spot, a vector read
    for leaf in LEAF_FORMS {
        for f in FORMULAS {
            for bits in 0..8 {
                for pos in ["let", "if-cond", "while-cond"] {
                    v.push(json!({"kind": "truth", "formula": f, "bits": bits, "pos": pos, "leaf": leaf}));
                }
            }
        }
    }
    // a call-free operand that can trap (integer division) in each leaf position, the other leaves
    // being plain variables or probes: whether the trap fires is decided by short-circuiting alone
    for f in FORMULAS {
        for bits in 0..8 {
            for trap_pos in 0..3 {
                for others in ["vars", "probes"] {
                    for z in [0, 1] {
                        for pos in ["return", "if-cond"] {
                            v.push(json!({"kind": "guard", "formula": f, "bits": bits, "trap_pos": trap_pos, "others": others, "z": z, "pos": pos}));
                        }
                    }
                }
            }
        }
    }
    // every call form with an observable effect in every position whose value is discarded
    for form in ["fn", "closure", "method-dot", "method-path", "trait-path", "trait-bound", "dyn", "generic", "builtin"] {
        for pos in ["stmt", "while-tail", "while-tail-if", "if-stmt", "match-stmt", "let-underscore", "block-tail-in-if"] {
            v.push(json!({"kind": "discard", "form": form, "pos": pos}));
        }
    }
    for n in 0..=3 {
        for callee in ["fn", "closure", "returned-closure", "returned-fn", "method-dot", "method-path", "generic"] {
            v.push(json!({"kind": "call", "n": n, "callee": callee}));
        }
    }
    for perm in 0..6 {
        v.push(json!({"kind": "struct-lit", "perm": perm}));
        // one field value fails (a division by a zero variable, a read past the end of a vector, a read
        // of a field of a tuple that holds it): what stands before it in the text has run, the rest not
        for failing in 0..3 {
            for how in ["division", "vector-read", "plain-reads"] {
                v.push(json!({"kind": "struct-lit", "perm": perm, "failing": failing, "how": how}));
            }
        }
    }
    for n in 0..=3 {
        v.push(json!({"kind": "while", "iters": n}));
    }
    for ctor in ["tuple", "array", "enum-ctor", "nested-tuple"] {
        v.push(json!({"kind": "ctor", "form": ctor}));
    }
    // three elements of one list read and write one cell (R = ref_get(r), A = ref_get(alias of r),
    // B = a call that increments the cell and returns its new content), in every list form
    for form in SHARED_FORMS {
        for a in ["R", "A", "B"] {
            for b in ["R", "A", "B"] {
                for c in ["R", "A", "B"] {
                    v.push(json!({"kind": "shared-reads", "form": form, "elems": [a, b, c]}));
                }
            }
        }
    }
    // loops whose condition is false for the first time after some iterations, the `false` produced by
    // every kind of sub-expression; alone and inside an outer loop that runs it twice
    for cond in WHILE_CONDS {
        for nested in [false, true] {
            v.push(json!({"kind": "while-cond", "cond": cond, "nested": nested}));
        }
    }
    v
}

const SHARED_FORMS: [&str; 9] = ["call-args", "closure-args", "method-args", "tuple", "array", "enum-ctor", "struct-lit", "arithmetic", "nested-call-args"];
const WHILE_CONDS: [&str; 20] = [
    "cmp", "and-second-false", "or-both-false", "not", "call", "if-else-false", "match-int-literal-false", "match-int-default-false", "match-bool", "match-enum", "match-string", "match-tuple",
    "and-with-match", "or-with-match", "if-with-match-inside", "match-with-if-inside",
    // a match / if that yields a number, as an operand of the comparison
    "match-as-operand", "match-on-call-as-operand", "if-as-operand", "sum-of-two-matches-as-operand",
];

fn build(case: &Value) -> Option<(Program, String)> {
    let mut n = Names::new();
    let mut items = prelude(&mut n);
    let mut body: Vec<Stmt> = Vec::new();
    let site;
    match case["kind"].as_str().unwrap() {
        "binop" => {
            let op = BinOp::ALL.iter().copied().find(|o| o.sym() == case["op"].as_str().unwrap()).unwrap();
            let ty = match case["ty"].as_str().unwrap() {
                "int32" => T6::I32,
                "int8" => T6::I8,
                "string" => T6::Str,
                _ => T6::Bool,
            };
            let arith = matches!(op, BinOp::Add | BinOp::Sub | BinOp::Mul | BinOp::Div);
            let cmp = matches!(op, BinOp::Lt | BinOp::Gt | BinOp::Le | BinOp::Ge);
            let eq = matches!(op, BinOp::Eq | BinOp::Ne);
            let logic = matches!(op, BinOp::And | BinOp::Or);
            let ok = match ty {
                T6::I32 | T6::I8 => arith || cmp || eq,
                T6::Str => op == BinOp::Add || cmp || eq,
                T6::Bool => logic || eq,
                _ => false,
            };
            if !ok {
                return None;
            }
            let res_ty = if arith { ty } else { T6::Bool };
            let r = n.fresh("r");
            body.push(let_(r, bin(op, ty.probe(1), ty.probe(2))));
            body.push(st(res_ty.show(v(r))));
            site = format!("binop={};ty={}", op.sym(), ty.tag());
        }
        "truth" => {
            let bits = case["bits"].as_u64().unwrap();
            let f = case["formula"].as_str().unwrap();
            let e = match case["leaf"].as_str() {
                None => formula(f, tb(1, bits & 1 != 0), tb(2, bits & 2 != 0), tb(3, bits & 4 != 0)),
                Some(leaf) => {
                    // results of probing calls that are structs / tuples / vectors
                    let (k, x) = (n.fresh("k"), n.fresh("x"));
                    let tag = |k: VarId| println(add(s("t"), i2s(v(k))));
                    items.push(Item::Struct(StructDef { name: "Wb".into(), generics: vec![], fields: vec![("ok".into(), Ty::Bool), ("n".into(), Ty::i32())], derives: vec![] }));
                    items.push(Item::Struct(StructDef { name: "Ww".into(), generics: vec![], fields: vec![("w".into(), Ty::Named("Wb".into(), vec![])), ("m".into(), Ty::i32())], derives: vec![] }));
                    items.push(fn_def("tW", vec![(k, Ty::i32()), (x, Ty::Bool)], Some(Ty::Named("Wb".into(), vec![])), block(vec![st(tag(k))], Some(E::StructLit("Wb".into(), vec![("ok".into(), v(x)), ("n".into(), v(k))], vec![])))));
                    let (k2, x2) = (n.fresh("k"), n.fresh("x"));
                    items.push(fn_def("tWW", vec![(k2, Ty::i32()), (x2, Ty::Bool)], Some(Ty::Named("Ww".into(), vec![])), block(vec![st(tag(k2))], Some(E::StructLit("Ww".into(), vec![("w".into(), E::StructLit("Wb".into(), vec![("ok".into(), v(x2)), ("n".into(), v(k2))], vec![])), ("m".into(), v(k2))], vec![])))));
                    let (k3, x3) = (n.fresh("k"), n.fresh("x"));
                    items.push(fn_def("tQ", vec![(k3, Ty::i32()), (x3, Ty::Bool)], Some(Ty::Tuple(vec![Ty::Bool, Ty::i32()])), block(vec![st(tag(k3))], Some(E::Tuple(vec![v(x3), v(k3)])))));
                    let (k4, x4) = (n.fresh("k"), n.fresh("x"));
                    items.push(fn_def("tV", vec![(k4, Ty::i32()), (x4, Ty::Bool)], Some(Ty::Vec(Box::new(Ty::Bool))), block(vec![st(tag(k4))], Some(bi("vec_push", vec![bi("vec_new", vec![]), v(x4)])))));
                    formula(f, leaf_of(leaf, 1, bits & 1 != 0), leaf_of(leaf, 2, bits & 2 != 0), leaf_of(leaf, 3, bits & 4 != 0))
                }
            };
            let pos = case["pos"].as_str().unwrap();
            match pos {
                "let" => {
                    let r = n.fresh("r");
                    body.push(let_(r, e));
                    body.push(st(T6::Bool.show(v(r))));
                }
                "if-cond" => body.push(st(if_(e, println(s("then")), println(s("else"))))),
                "while-cond" => {
                    let c = n.fresh("c");
                    body.push(let_(c, bi("ref", vec![int(0)])));
                    body.push(st(E::While(
                        Box::new(bin(BinOp::And, bin(BinOp::Lt, bi("ref_get", vec![v(c)]), int(2)), e)),
                        Box::new(block(vec![st(bi("ref_set", vec![v(c), add(bi("ref_get", vec![v(c)]), int(1))]))], Some(println(s("body"))))),
                    )));
                }
                "arg" => body.push(st(T6::Bool.show(e))),
                _ => {
                    items.push(fn_def("produce", vec![], Some(Ty::Bool), block(vec![], Some(e))));
                    body.push(st(T6::Bool.show(call("produce", vec![]))));
                }
            }
            site = match case["leaf"].as_str() {
                None => format!("truth={};pos={}", f, pos),
                Some(leaf) => format!("truth={};pos={};leaf={}", f, pos, leaf),
            };
        }
        "guard" => {
            let bits = case["bits"].as_u64().unwrap();
            let f = case["formula"].as_str().unwrap();
            let trap_pos = case["trap_pos"].as_u64().unwrap() as usize;
            let others = case["others"].as_str().unwrap();
            let pos = case["pos"].as_str().unwrap();
            if trap_pos == 2 && !f.contains('c') {
                return None;
            }
            let ps: Vec<VarId> = ["a", "b", "c"].iter().map(|x| n.fresh(x)).collect();
            let z = n.fresh("z");
            let leaf = |i: usize| -> E {
                if i == trap_pos {
                    // (100 / z > 3) == <bit i>: traps iff evaluated with z == 0
                    bin(BinOp::Eq, bin(BinOp::Gt, bin(BinOp::Div, int(100), v(z)), int(3)), v(ps[i]))
                } else if others == "vars" {
                    v(ps[i])
                } else {
                    call("tB", vec![int(i as i128 + 1), v(ps[i])])
                }
            };
            let e = formula(f, leaf(0), leaf(1), leaf(2));
            let mut params: Vec<(VarId, Ty)> = ps.iter().map(|p| (*p, Ty::Bool)).collect();
            params.push((z, Ty::i32()));
            let gbody = if pos == "return" { block(vec![], Some(e)) } else { block(vec![], Some(if_(e, E::Bool(true), E::Bool(false)))) };
            items.push(fn_def("guard", params, Some(Ty::Bool), gbody));
            let args = vec![E::Bool(bits & 1 != 0), E::Bool(bits & 2 != 0), E::Bool(bits & 4 != 0), int(case["z"].as_i64().unwrap() as i128)];
            body.push(st(T6::Bool.show(call("guard", args))));
            site = format!("guard={};trap_pos={};others={};pos={}", f, trap_pos, others, pos);
        }
        "discard" => {
            let form = case["form"].as_str().unwrap();
            let pos = case["pos"].as_str().unwrap();
            items.push(Item::Struct(StructDef { name: "Rc".into(), generics: vec![], fields: vec![("base".into(), Ty::i32())], derives: vec![] }));
            let sf = n.fresh("self");
            items.push(Item::Impl(ImplDef {
                generics: vec![],
                trait_name: None,
                for_ty: Ty::named("Rc"),
                methods: vec![FnDef { name: "go_m".into(), generics: vec![], bounds: vec![], params: vec![(sf, Ty::named("Rc"))], ret: Some(Ty::Unit), body: block(vec![st(println(add(s("in-method"), i2s(E::Field(Box::new(v(sf)), "base".into())))))], None) }],
            }));
            items.push(Item::Trait(TraitDef { name: "Tk".into(), methods: vec![("tick".into(), vec![Ty::Param("Self".into())], Ty::Unit)] }));
            let sf2 = n.fresh("self");
            items.push(Item::Impl(ImplDef {
                generics: vec![],
                trait_name: Some("Tk".into()),
                for_ty: Ty::named("Rc"),
                methods: vec![FnDef { name: "tick".into(), generics: vec![], bounds: vec![], params: vec![(sf2, Ty::named("Rc"))], ret: Some(Ty::Unit), body: block(vec![st(println(s("in-tick")))], None) }],
            }));
            items.push(fn_def("target", vec![], Some(Ty::Unit), block(vec![st(println(s("in-fn")))], None)));
            let gx = n.fresh("x");
            items.push(Item::Fn(FnDef { name: "gtarget".into(), generics: vec!["G".into()], bounds: vec![], params: vec![(gx, Ty::Param("G".into()))], ret: Some(Ty::Unit), body: block(vec![st(println(s("in-generic")))], None) }));
            let bu = n.fresh("u");
            items.push(Item::Fn(FnDef {
                name: "via_bound".into(),
                generics: vec!["U".into()],
                bounds: vec![("U".into(), vec!["Tk".into()])],
                params: vec![(bu, Ty::Param("U".into()))],
                ret: Some(Ty::Unit),
                body: E::TraitCall("Tk".into(), "tick".into(), CallForm::Path, vec![v(bu)], Ty::Param("U".into())),
            }));
            let (rc, d, clo, cell, cnt) = (n.fresh("rc"), n.fresh("d"), n.fresh("clo"), n.fresh("cell"), n.fresh("cnt"));
            body.push(let_t(rc, Ty::named("Rc"), E::StructLit("Rc".into(), vec![("base".into(), int(5))], vec![])));
            body.push(let_t(d, Ty::Dyn("Tk".into()), E::ToDyn("Tk".into(), Box::new(v(rc)), Ty::named("Rc"))));
            body.push(let_(clo, E::Closure(vec![], Box::new(block(vec![st(println(s("in-closure")))], None)))));
            body.push(let_(cell, bi("ref", vec![int(0)])));
            body.push(let_(cnt, bi("ref", vec![int(0)])));
            let mk = |k: i128| -> E {
                let _ = k;
                match form {
                    "fn" => call("target", vec![]),
                    "closure" => E::Call(Box::new(v(clo)), vec![]),
                    "method-dot" => E::Inherent("Rc".into(), "go_m".into(), CallForm::Dot, vec![v(rc)], vec![]),
                    "method-path" => E::Inherent("Rc".into(), "go_m".into(), CallForm::Path, vec![v(rc)], vec![]),
                    "trait-path" => E::TraitCall("Tk".into(), "tick".into(), CallForm::Path, vec![v(rc)], Ty::named("Rc")),
                    "trait-bound" => callg("via_bound", vec![Ty::named("Rc")], vec![v(rc)]),
                    "dyn" => E::TraitCall("Tk".into(), "tick".into(), CallForm::Path, vec![v(d)], Ty::Dyn("Tk".into())),
                    "generic" => callg("gtarget", vec![Ty::i32()], vec![int(3)]),
                    _ => bi("ref_set", vec![v(cell), add(bi("ref_get", vec![v(cell)]), int(1))]),
                }
            };
            let bump = st(bi("ref_set", vec![v(cnt), add(bi("ref_get", vec![v(cnt)]), int(1))]));
            let cond = bin(BinOp::Lt, bi("ref_get", vec![v(cnt)]), int(2));
            match pos {
                "stmt" => body.push(st(mk(0))),
                "while-tail" => body.push(st(E::While(Box::new(cond), Box::new(block(vec![bump], Some(mk(0))))))),
                "while-tail-if" => body.push(st(E::While(Box::new(cond), Box::new(block(vec![bump], Some(if_(bin(BinOp::Lt, bi("ref_get", vec![v(cnt)]), int(2)), mk(0), mk(1)))))))),
                "if-stmt" => body.push(st(if_(T6::Bool.probe(1), mk(0), mk(1)))),
                "match-stmt" => body.push(st(E::Match(Box::new(T6::I32.probe(1)), vec![(Pat::Int(1, IntKind::I32, false), mk(0)), (Pat::Wild, mk(1))]))),
                "let-underscore" => body.push(Stmt::Let(Pat::Wild, None, mk(0))),
                _ => body.push(st(if_(T6::Bool.probe(2), block(vec![st(println(s("in-block")))], Some(mk(0))), E::Unit))),
            }
            body.push(st(T6::I32.show(bi("ref_get", vec![v(cell)]))));
            site = format!("discard={};pos={}", form, pos);
        }
        "call" => {
            let nargs = case["n"].as_u64().unwrap() as usize;
            let callee = case["callee"].as_str().unwrap();
            let params: Vec<VarId> = (0..nargs).map(|_| n.fresh("p")).collect();
            let mut sum = int(1000);
            for p in &params {
                sum = add(sum, v(*p));
            }
            let fbody = block(vec![st(println(s("in-callee")))], Some(sum.clone()));
            let args: Vec<E> = (0..nargs).map(|i| T6::I32.probe(i as i128 + 1)).collect();
            let fty = Ty::Fn(vec![Ty::i32(); nargs], Box::new(Ty::i32()));
            let e = match callee {
                "fn" => {
                    items.push(fn_def("target", params.iter().map(|p| (*p, Ty::i32())).collect(), Some(Ty::i32()), fbody));
                    call("target", args)
                }
                "closure" => {
                    let f = n.fresh("f");
                    body.push(let_(f, E::Closure(params.iter().map(|p| (*p, Some(Ty::i32()))).collect(), Box::new(fbody))));
                    E::Call(Box::new(v(f)), args)
                }
                "returned-closure" => {
                    // the callee itself is an effectful expression: mk(t(9))(args…)
                    let k = n.fresh("k");
                    items.push(fn_def(
                        "mk",
                        vec![(k, Ty::i32())],
                        Some(fty.clone()),
                        block(vec![], Some(E::Closure(params.iter().map(|p| (*p, Some(Ty::i32()))).collect(), Box::new(block(vec![st(println(s("in-callee")))], Some(add(sum, v(k)))))))),
                    ));
                    E::Call(Box::new(call("mk", vec![T6::I32.probe(9)])), args)
                }
                "returned-fn" => {
                    // the callee is an effectful expression yielding a plain top-level function: choose(t(9))(args…)
                    items.push(fn_def("target", params.iter().map(|p| (*p, Ty::i32())).collect(), Some(Ty::i32()), fbody));
                    let k = n.fresh("k");
                    items.push(fn_def("choose", vec![(k, Ty::i32())], Some(fty.clone()), block(vec![st(T6::I32.show(v(k)))], Some(E::FnRef("target".into(), vec![])))));
                    E::Call(Box::new(call("choose", vec![T6::I32.probe(9)])), args)
                }
                "method-dot" | "method-path" => {
                    items.push(Item::Struct(StructDef { name: "Rc".into(), generics: vec![], fields: vec![("base".into(), Ty::i32())], derives: vec![] }));
                    let sf = n.fresh("self");
                    let mut ps = vec![(sf, Ty::named("Rc"))];
                    ps.extend(params.iter().map(|p| (*p, Ty::i32())));
                    items.push(Item::Impl(ImplDef {
                        generics: vec![],
                        trait_name: None,
                        for_ty: Ty::named("Rc"),
                        methods: vec![FnDef {
                            name: "go_m".into(),
                            generics: vec![],
                            bounds: vec![],
                            params: ps,
                            ret: Some(Ty::i32()),
                            body: block(vec![st(println(s("in-callee")))], Some(add(sum, E::Field(Box::new(v(sf)), "base".into())))),
                        }],
                    }));
                    let recv = E::StructLit("Rc".into(), vec![("base".into(), T6::I32.probe(9))], vec![]);
                    let mut all = vec![recv];
                    all.extend(args);
                    E::Inherent("Rc".into(), "go_m".into(), if callee == "method-dot" { CallForm::Dot } else { CallForm::Path }, all, vec![])
                }
                _ => {
                    let gens: Vec<String> = (0..nargs).map(|i| format!("G{}", i)).collect();
                    items.push(Item::Fn(FnDef {
                        name: "gtarget".into(),
                        generics: gens.clone(),
                        bounds: vec![],
                        params: params.iter().zip(gens.iter()).map(|(p, g)| (*p, Ty::Param(g.clone()))).collect(),
                        ret: Some(Ty::i32()),
                        body: block(vec![st(println(s("in-callee")))], Some(int(1000))),
                    }));
                    callg("gtarget", vec![Ty::i32(); nargs], args)
                }
            };
            let r = n.fresh("r");
            body.push(let_(r, e));
            body.push(st(T6::I32.show(v(r))));
            site = format!("call={};args={}", callee, nargs);
        }
        "struct-lit" => {
            items.push(Item::Struct(StructDef {
                name: "P3".into(),
                generics: vec![],
                fields: vec![("a".into(), Ty::i32()), ("b".into(), Ty::i32()), ("c".into(), Ty::i32())],
                derives: vec![],
            }));
            let perms = [[0, 1, 2], [0, 2, 1], [1, 0, 2], [1, 2, 0], [2, 0, 1], [2, 1, 0]];
            let perm = perms[case["perm"].as_u64().unwrap() as usize];
            let names = ["a", "b", "c"];
            let mut fields: Vec<(String, E)> = perm.iter().map(|i| (names[*i].to_string(), T6::I32.probe(*i as i128 + 1))).collect();
            if let Some(failing) = case["failing"].as_u64() {
                // the value written at this position of the literal is call-free
                let (zero, total, vs, pr) = (n.fresh("zero"), n.fresh("total"), n.fresh("vs"), n.fresh("pr"));
                body.push(let_(zero, int(0)));
                body.push(let_(total, int(10)));
                body.push(let_(vs, bi("vec_push", vec![bi("vec_new", vec![]), int(1)])));
                body.push(let_(pr, E::Tuple(vec![int(7), int(8)])));
                fields[failing as usize].1 = match case["how"].as_str().unwrap() {
                    "division" => bin(BinOp::Div, v(total), v(zero)),
                    "vector-read" => bi("vec_get", vec![v(vs), int(5)]),
                    _ => add(E::Proj(Box::new(v(pr)), 0), v(total)),
                };
            }
            let r = n.fresh("r");
            body.push(let_(r, E::StructLit("P3".into(), fields, vec![])));
            for f in names {
                body.push(st(T6::I32.show(E::Field(Box::new(v(r)), f.into()))));
            }
            site = match case["failing"].as_u64() {
                Some(f) => format!("struct-lit;written-order={};field-{}-is-a-{}", if case["perm"] == 0 { "declaration" } else { "permuted" }, f, case["how"].as_str().unwrap()),
                None => format!("struct-lit;written-order={}", if case["perm"] == 0 { "declaration" } else { "permuted" }),
            };
        }
        "shared-reads" => {
            let form = case["form"].as_str().unwrap();
            let elems: Vec<&str> = case["elems"].as_array().unwrap().iter().map(|e| e.as_str().unwrap()).collect();
            let (cell, alias) = (n.fresh("cell"), n.fresh("alias"));
            let bc = n.fresh("bc");
            items.push(fn_def(
                "bump",
                vec![(bc, Ty::Ref(Box::new(Ty::i32())))],
                Some(Ty::i32()),
                block(vec![st(bi("ref_set", vec![v(bc), add(bi("ref_get", vec![v(bc)]), int(1))]))], Some(bi("ref_get", vec![v(bc)]))),
            ));
            body.push(let_(cell, bi("ref", vec![int(10)])));
            body.push(let_(alias, v(cell)));
            let el = |k: &str| -> E {
                match k {
                    "R" => bi("ref_get", vec![v(cell)]),
                    "A" => bi("ref_get", vec![v(alias)]),
                    _ => call("bump", vec![v(cell)]),
                }
            };
            let es: Vec<E> = elems.iter().map(|k| el(k)).collect();
            let (pa, pb, pc) = (n.fresh("pa"), n.fresh("pb"), n.fresh("pc"));
            let show3 = |a: E, b: E, c: E| block(vec![st(T6::I32.show(a)), st(T6::I32.show(b))], Some(T6::I32.show(c)));
            match form {
                "call-args" | "nested-call-args" => {
                    items.push(fn_def("show3", vec![(pa, Ty::i32()), (pb, Ty::i32()), (pc, Ty::i32())], Some(Ty::Unit), show3(v(pa), v(pb), v(pc))));
                    if form == "call-args" {
                        body.push(st(call("show3", es)));
                    } else {
                        let q = n.fresh("q");
                        items.push(fn_def("idi", vec![(q, Ty::i32())], Some(Ty::i32()), v(q)));
                        body.push(st(call("show3", es.into_iter().map(|e| call("idi", vec![e])).collect())));
                    }
                }
                "closure-args" => {
                    let f = n.fresh("f");
                    body.push(let_(f, E::Closure(vec![(pa, Some(Ty::i32())), (pb, Some(Ty::i32())), (pc, Some(Ty::i32()))], Box::new(show3(v(pa), v(pb), v(pc))))));
                    body.push(st(E::Call(Box::new(v(f)), es)));
                }
                "method-args" => {
                    items.push(Item::Struct(StructDef { name: "Mm".into(), generics: vec![], fields: vec![("k".into(), Ty::i32())], derives: vec![] }));
                    let sf = n.fresh("self");
                    items.push(Item::Impl(ImplDef {
                        generics: vec![],
                        trait_name: None,
                        for_ty: Ty::named("Mm"),
                        methods: vec![FnDef { name: "show3".into(), generics: vec![], bounds: vec![], params: vec![(sf, Ty::named("Mm")), (pa, Ty::i32()), (pb, Ty::i32()), (pc, Ty::i32())], ret: Some(Ty::Unit), body: show3(v(pa), v(pb), v(pc)) }],
                    }));
                    let m = n.fresh("m");
                    body.push(let_(m, E::StructLit("Mm".into(), vec![("k".into(), int(0))], vec![])));
                    let mut args = vec![v(m)];
                    args.extend(es);
                    body.push(st(E::Inherent("Mm".into(), "show3".into(), CallForm::Dot, args, vec![])));
                }
                "tuple" => {
                    let t = n.fresh("t");
                    body.push(let_(t, E::Tuple(es)));
                    for i in 0..3 {
                        body.push(st(T6::I32.show(E::Proj(Box::new(v(t)), i))));
                    }
                }
                "array" => {
                    let t = n.fresh("t");
                    body.push(let_(t, E::Array(es)));
                    for i in 0..3 {
                        body.push(st(T6::I32.show(bi("array_get", vec![v(t), int(i)]))));
                    }
                }
                "enum-ctor" => {
                    items.push(Item::Enum(EnumDef { name: "Tri3".into(), generics: vec![], variants: vec![("Nil3".into(), vec![]), ("Three3".into(), vec![Ty::i32(), Ty::i32(), Ty::i32()])], derives: vec![] }));
                    let t = n.fresh("t");
                    body.push(let_(t, E::Ctor("Tri3".into(), "Three3".into(), false, es, vec![])));
                    body.push(st(E::Match(
                        Box::new(v(t)),
                        vec![
                            (Pat::Ctor("Tri3".into(), "Three3".into(), false, vec![Pat::Var(pa), Pat::Var(pb), Pat::Var(pc)]), show3(v(pa), v(pb), v(pc))),
                            (Pat::Ctor("Tri3".into(), "Nil3".into(), false, vec![]), println(s("nil"))),
                        ],
                    )));
                }
                "struct-lit" => {
                    items.push(Item::Struct(StructDef { name: "P3".into(), generics: vec![], fields: vec![("fa".into(), Ty::i32()), ("fb".into(), Ty::i32()), ("fc".into(), Ty::i32())], derives: vec![] }));
                    let t = n.fresh("t");
                    let mut it = es.into_iter();
                    body.push(let_(t, E::StructLit("P3".into(), vec![("fa".into(), it.next().unwrap()), ("fb".into(), it.next().unwrap()), ("fc".into(), it.next().unwrap())], vec![])));
                    for f in ["fa", "fb", "fc"] {
                        body.push(st(T6::I32.show(E::Field(Box::new(v(t)), f.into()))));
                    }
                }
                _ => {
                    // one arithmetic expression: e1 + e2 * 100 + e3 * 10000
                    let mut it = es.into_iter();
                    let (e1, e2, e3) = (it.next().unwrap(), it.next().unwrap(), it.next().unwrap());
                    let r = n.fresh("r");
                    body.push(let_(r, add(add(e1, bin(BinOp::Mul, e2, int(100))), bin(BinOp::Mul, e3, int(10000)))));
                    body.push(st(T6::I32.show(v(r))));
                }
            }
            body.push(st(T6::I32.show(bi("ref_get", vec![v(cell)]))));
            site = format!("shared-reads;form={};elems={}", form, elems.join(""));
        }
        "while-cond" => {
            let cond = case["cond"].as_str().unwrap();
            let nested = case["nested"].as_bool().unwrap();
            let c = n.fresh("c");
            let get = || bi("ref_get", vec![v(c)]);
            let lt = |k: i128| bin(BinOp::Lt, get(), int(k));
            // helpers the conditions use
            let q = n.fresh("q");
            items.push(fn_def("below3", vec![(q, Ty::i32())], Some(Ty::Bool), bin(BinOp::Lt, v(q), int(3))));
            items.push(Item::Enum(EnumDef { name: "Sz".into(), generics: vec![], variants: vec![("Small".into(), vec![]), ("Big".into(), vec![Ty::i32()])], derives: vec![] }));
            let q2 = n.fresh("q");
            items.push(fn_def("classify", vec![(q2, Ty::i32())], Some(Ty::named("Sz")), if_(bin(BinOp::Lt, v(q2), int(3)), E::Ctor("Sz".into(), "Small".into(), false, vec![], vec![]), E::Ctor("Sz".into(), "Big".into(), false, vec![v(q2)], vec![]))));
            let q3 = n.fresh("q");
            items.push(fn_def("word", vec![(q3, Ty::i32())], Some(Ty::Str), if_(bin(BinOp::Lt, v(q3), int(3)), s("go"), s("stop"))));
            let q4 = n.fresh("q");
            items.push(fn_def("same", vec![(q4, Ty::i32())], Some(Ty::i32()), block(vec![st(println(s("same")))], Some(v(q4)))));
            let int_pat = |k: i128| Pat::Int(k, IntKind::I32, false);
            let match3_false = || E::Match(Box::new(get()), vec![(int_pat(3), E::Bool(false)), (Pat::Wild, E::Bool(true))]);
            let w = n.fresh("w");
            let cond_e: E = match cond {
                "cmp" => lt(3),
                "and-second-false" => bin(BinOp::And, lt(10), bin(BinOp::Ne, get(), int(3))),
                "or-both-false" => bin(BinOp::Or, lt(2), bin(BinOp::Eq, get(), int(2))),
                "not" => E::Unary(UnOp::Not, Box::new(bin(BinOp::Ge, get(), int(3)))),
                "call" => call("below3", vec![get()]),
                "if-else-false" => if_(lt(3), E::Bool(true), E::Bool(false)),
                "match-int-literal-false" => E::Match(Box::new(get()), vec![(int_pat(3), E::Bool(false)), (Pat::Wild, lt(6))]),
                "match-int-default-false" => E::Match(Box::new(get()), vec![(int_pat(0), E::Bool(true)), (int_pat(1), E::Bool(true)), (int_pat(2), E::Bool(true)), (Pat::Wild, E::Bool(false))]),
                "match-bool" => E::Match(Box::new(lt(3)), vec![(Pat::Bool(true), E::Bool(true)), (Pat::Bool(false), E::Bool(false))]),
                "match-enum" => E::Match(Box::new(call("classify", vec![get()])), vec![(Pat::Ctor("Sz".into(), "Small".into(), false, vec![]), E::Bool(true)), (Pat::Ctor("Sz".into(), "Big".into(), false, vec![Pat::Var(w)]), bin(BinOp::Lt, v(w), int(0)))]),
                "match-string" => E::Match(Box::new(call("word", vec![get()])), vec![(Pat::Str("go".into()), E::Bool(true)), (Pat::Wild, E::Bool(false))]),
                "match-tuple" => E::Match(Box::new(E::Tuple(vec![lt(3), lt(10)])), vec![(Pat::Tuple(vec![Pat::Bool(true), Pat::Bool(true)]), E::Bool(true)), (Pat::Wild, E::Bool(false))]),
                "match-as-operand" => bin(BinOp::Lt, E::Match(Box::new(call("same", vec![get()])), vec![(int_pat(3), int(10)), (Pat::Wild, int(1))]), int(3)),
                "match-on-call-as-operand" => bin(BinOp::Lt, E::Match(Box::new(call("classify", vec![get()])), vec![(Pat::Ctor("Sz".into(), "Small".into(), false, vec![]), int(1)), (Pat::Ctor("Sz".into(), "Big".into(), false, vec![Pat::Var(w)]), v(w))]), int(3)),
                "if-as-operand" => bin(BinOp::Lt, if_(lt(3), int(1), int(5)), int(3)),
                "sum-of-two-matches-as-operand" => bin(
                    BinOp::Lt,
                    add(E::Match(Box::new(call("same", vec![get()])), vec![(int_pat(3), int(10)), (Pat::Wild, int(1))]), E::Match(Box::new(call("word", vec![get()])), vec![(Pat::Str("go".into()), int(0)), (Pat::Wild, int(7))])),
                    int(3),
                ),
                "and-with-match" => bin(BinOp::And, lt(10), match3_false()),
                "or-with-match" => bin(BinOp::Or, bin(BinOp::Lt, get(), int(0)), match3_false()),
                "if-with-match-inside" => if_(lt(10), match3_false(), E::Bool(false)),
                _ => E::Match(Box::new(get()), vec![(int_pat(0), E::Bool(true)), (Pat::Wild, if_(lt(3), E::Bool(true), E::Bool(false)))]),
            };
            let inner = E::While(
                Box::new(cond_e),
                Box::new(block(vec![st(T6::I32.show(get())), st(bi("ref_set", vec![v(c), add(get(), int(1))]))], Some(println(s("body"))))),
            );
            if nested {
                let d = n.fresh("d");
                body.push(let_(d, bi("ref", vec![int(0)])));
                body.push(let_(c, bi("ref", vec![int(0)])));
                body.push(st(E::While(
                    Box::new(bin(BinOp::Lt, bi("ref_get", vec![v(d)]), int(2))),
                    Box::new(block(
                        vec![st(bi("ref_set", vec![v(c), int(0)])), st(inner), st(T6::I32.show(get())), st(bi("ref_set", vec![v(d), add(bi("ref_get", vec![v(d)]), int(1))]))],
                        Some(println(s("outer"))),
                    )),
                )));
            } else {
                body.push(let_(c, bi("ref", vec![int(0)])));
                body.push(st(inner));
            }
            body.push(st(T6::I32.show(get())));
            site = format!("while-cond={};nested={}", cond, nested);
        }
        "while" => {
            let iters = case["iters"].as_u64().unwrap() as i128;
            let c = n.fresh("c");
            body.push(let_(c, bi("ref", vec![int(0)])));
            body.push(st(E::While(
                Box::new(bin(BinOp::Lt, bi("ref_get", vec![v(c)]), T6::I32.probe(iters))),
                Box::new(block(vec![st(bi("ref_set", vec![v(c), add(bi("ref_get", vec![v(c)]), int(1))]))], Some(println(s("body"))))),
            )));
            body.push(st(T6::I32.show(bi("ref_get", vec![v(c)]))));
            site = format!("while;iters={}", iters);
        }
        _ => {
            let form = case["form"].as_str().unwrap();
            let r = n.fresh("r");
            match form {
                "tuple" => {
                    body.push(let_(r, E::Tuple(vec![T6::I32.probe(1), T6::Str.probe(2), T6::Bool.probe(3)])));
                    body.push(st(T6::I32.show(E::Proj(Box::new(v(r)), 0))));
                    body.push(st(T6::Str.show(E::Proj(Box::new(v(r)), 1))));
                    body.push(st(T6::Bool.show(E::Proj(Box::new(v(r)), 2))));
                }
                "array" => {
                    body.push(let_(r, E::Array(vec![T6::I32.probe(1), T6::I32.probe(2), T6::I32.probe(3)])));
                    for i in 0..3 {
                        body.push(st(T6::I32.show(bi("array_get", vec![v(r), int(i)]))));
                    }
                }
                "enum-ctor" => {
                    items.push(Item::Enum(EnumDef {
                        name: "Tri".into(),
                        generics: vec![],
                        variants: vec![("Nil".into(), vec![]), ("Three".into(), vec![Ty::i32(), Ty::Str, Ty::Bool])],
                        derives: vec![],
                    }));
                    let (a, b, c) = (n.fresh("a"), n.fresh("b"), n.fresh("c"));
                    body.push(let_(r, E::Ctor("Tri".into(), "Three".into(), false, vec![T6::I32.probe(1), T6::Str.probe(2), T6::Bool.probe(3)], vec![])));
                    body.push(st(E::Match(
                        Box::new(v(r)),
                        vec![
                            (
                                Pat::Ctor("Tri".into(), "Three".into(), false, vec![Pat::Var(a), Pat::Var(b), Pat::Var(c)]),
                                block(vec![st(T6::I32.show(v(a))), st(T6::Str.show(v(b)))], Some(T6::Bool.show(v(c)))),
                            ),
                            (Pat::Ctor("Tri".into(), "Nil".into(), false, vec![]), block(vec![], None)),
                        ],
                    )));
                }
                _ => {
                    body.push(let_(r, E::Tuple(vec![E::Tuple(vec![T6::I32.probe(1), T6::I32.probe(2)]), E::Tuple(vec![T6::I32.probe(3), T6::I32.probe(4)])])));
                    let q = n.fresh("q");
                    body.push(let_(q, E::Proj(Box::new(v(r)), 1)));
                    body.push(st(T6::I32.show(E::Proj(Box::new(v(q)), 0))));
                }
            }
            site = format!("ctor={}", form);
        }
    }
    body.push(st(println(s("done"))));
    items.push(fn_def("main", vec![], None, block(body, None)));
    Some((Program::single(items, n.names.clone()), site))
}

pub struct EvalOrder;

impl Family for EvalOrder {
    fn name(&self) -> &'static str {
        "evalorder"
    }
    fn serves(&self) -> &'static [&'static str] {
        &["C09", "C01", "C02", "C04"]
    }
    fn rule(&self) -> &'static str {
        "effect probes in both operand positions of all 12 binary operators at int32/int8/string/bool; full truth tables (8 assignments) of 10 &&/||/! formulas in 5 positions (let, if condition, while condition, argument, return), and in 3 positions with leaves that hold the probing call inside another form (a field / a field of a field of its result, a component of a tuple built around it, a comparison, an if, a match, a block, a closure applied on the spot, a vector read); calls with 0-3 probed arguments through 7 callee forms (fn, closure, effectful callee expression yielding a closure / yielding a plain function, method dot/path form with probed receiver, generic fn); struct literals in all 6 written field orders, also with one field value that is call-free (a division by zero, a vector read past the end, plain reads) at each of the three written positions between two probes; while with 0-3 iterations and a probed condition; 9 call forms with an effect (fn, closure, method dot/path, trait path, through a bound, dyn, generic, builtin) in 7 positions whose value is discarded (statement, tail of a while body, tail of an if inside a while body, branch of an if / match statement, let _, tail of a block inside an if statement); tuple/array/constructor elements; three elements of one list that read and increment one Ref cell (directly, through an alias, through a call) in all 27 combinations x 9 list forms (call / closure / method arguments, tuple, array, constructor, struct literal, one arithmetic expression, calls as arguments); 20 kinds of while condition whose `false` comes from a comparison / && / || / ! / call / if / match on int, bool, enum, string, tuple / match inside && , || and if / if inside match, for the first time after three iterations, alone and inside an outer loop that runs it twice; guards: the same 10 formulas x 8 assignments with a call-free trapping operand (100 / z > 3, z in {0, 1}) in each leaf position, the other leaves plain variables or probes, as a function result or an if condition. non-trivial = programs printing >= 2 probes; distinct = distinct source text"
    }
    fn cases(&self, _tier: Tier) -> Box<dyn Iterator<Item = Value> + '_> {
        Box::new(cases_list().into_iter())
    }
    fn run(&self, case: &Value, ctx: &mut Ctx) -> Report {
        let mut rep = Report::default();
        let Some((prog, site)) = build(case) else {
            rep.tag("inapplicable");
            return rep;
        };
        let opts = DiffOpts { props_sem: &["C09", "C01"], ..DiffOpts::default() };
        let res = differential(&prog, &site, "evalorder", case, ctx, &opts, &mut rep);
        if let Some(d) = res {
            let probes = lossy(&d.ref_obs.stdout).lines().filter(|l| l.starts_with('t')).count();
            if probes < 2 {
                rep.nontrivial_key = None;
            }
        }
        rep
    }
}
