//! C02 / C03 / C19: every type in every position a type can be written, without ever constructing a
//! value of it (so nothing but the position itself makes the compiler declare the Go types it needs).

use crate::drive::*;
use crate::families::common::*;
use crate::oracle::*;
use serde_json::{Value, json};

const BASE: [&str; 6] = ["int32", "bool", "string", "unit", "S", "E2"];
pub const POSITIONS: [&str; 9] = ["let-vec", "param-vec", "ret-vec", "struct-field-vec", "ref-of-vec", "opt-non", "closure-param-vec", "generic-id-vec", "tuple-with-vec"];

fn unary(t: &str) -> Vec<String> {
    vec![format!("[{}; 2]", t), format!("Vec[{}]", t), format!("Ref[{}]", t), format!("Opt[{}]", t), format!("Bx[{}]", t), format!("() -> {}", t), format!("({}) -> int32", t)]
}

pub fn types(tier: Tier) -> Vec<String> {
    let mut d1: Vec<String> = Vec::new();
    for a in BASE {
        d1.extend(unary(a));
        for b in BASE {
            d1.push(format!("({}, {})", a, b));
            d1.push(format!("({}, {}) -> unit", a, b));
        }
    }
    let mut all: Vec<String> = BASE.iter().map(|s| s.to_string()).collect();
    all.extend(d1.clone());
    if tier == Tier::Thorough {
        for t in &d1 {
            all.extend(unary(t));
            all.push(format!("({}, int32)", t));
            all.push(format!("(bool, {})", t));
        }
    } else {
        // quick: depth 2 through one representative inner type per constructor
        for t in ["(int32, bool)", "[int32; 2]", "Vec[int32]", "Ref[int32]", "Opt[int32]", "Bx[int32]", "() -> int32", "(int32) -> int32", "(S, E2)"] {
            all.extend(unary(t));
            all.push(format!("({}, int32)", t));
        }
    }
    all
}

fn program(t: &str, pos: &str) -> String {
    let head = "struct S { a: int32 }\nenum E2 { X, Y(bool) }\nenum Opt[T] { Non, Som(T) }\nstruct Bx[T] { v: T }\nfn id[T](x: T) -> T { x }\n";
    let body = match pos {
        "let-vec" => format!("fn main() {{\n    let v: Vec[{t}] = vec_new();\n    string_println(int32_to_string(vec_len(v)))\n}}\n", t = t),
        "param-vec" => format!("fn take(x: Vec[{t}]) -> int32 {{ vec_len(x) }}\nfn main() {{\n    string_println(int32_to_string(take(vec_new())))\n}}\n", t = t),
        "ret-vec" => format!("fn mk() -> Vec[{t}] {{ vec_new() }}\nfn main() {{\n    string_println(int32_to_string(vec_len(mk())))\n}}\n", t = t),
        "struct-field-vec" => format!("struct H {{ k: int32, f: Vec[{t}] }}\nfn main() {{\n    let h = H {{ k: 0, f: vec_new() }};\n    string_println(int32_to_string(vec_len(h.f) + h.k))\n}}\n", t = t),
        "ref-of-vec" => format!("fn main() {{\n    let r: Ref[Vec[{t}]] = ref(vec_new());\n    string_println(int32_to_string(vec_len(ref_get(r))))\n}}\n", t = t),
        "opt-non" => format!("fn main() {{\n    let o: Opt[{t}] = Opt::Non;\n    let k = match o {{ Opt::Non => 0, Opt::Som(_) => 1 }};\n    string_println(int32_to_string(k))\n}}\n", t = t),
        "closure-param-vec" => format!("fn main() {{\n    let f = |x: Vec[{t}]| vec_len(x);\n    string_println(int32_to_string(f(vec_new())))\n}}\n", t = t),
        "generic-id-vec" => format!("fn main() {{\n    let v: Vec[{t}] = id(vec_new());\n    string_println(int32_to_string(vec_len(v)))\n}}\n", t = t),
        _ => format!("fn main() {{\n    let p: (int32, Vec[{t}]) = (0, vec_new());\n    string_println(int32_to_string(p.0))\n}}\n", t = t),
    };
    format!("{}{}", head, body)
}

pub struct TypePos;

impl Family for TypePos {
    fn name(&self) -> &'static str {
        "typepos"
    }
    fn serves(&self) -> &'static [&'static str] {
        &["C02", "C03", "C19", "C04"]
    }
    fn rule(&self) -> &'static str {
        "types = {int32,bool,string,unit,S,E2} closed under {tuple, array, Vec, Ref, Opt[.], Bx[.] (generic struct), nullary / unary / binary function types} to depth 1, and to depth 2 through one representative per constructor (quick) / through every depth-1 type (thorough); each type T written in 9 positions (let annotation, parameter, result, struct field, under Ref, as the argument of a generic enum, closure parameter, through a generic function, inside a tuple) in a program that never constructs a value of T (vec_new / Opt::Non only); oracle: accepted, IR consistent, Go valid, prints 0; plus 5 programs that use function types whose result is a function type written without parentheses (two / three arrows; let, parameter, struct field, Vec element), applying the value one argument at a time. non-trivial = composite T; distinct = distinct source text"
    }
    fn cases(&self, tier: Tier) -> Box<dyn Iterator<Item = Value> + '_> {
        let n = types(tier).len();
        let curried: Vec<Value> = (0..curried_programs().len()).map(|i| json!({"curried": i})).collect();
        Box::new((0..n).map(|i| json!({"type": i})).chain(curried.into_iter()))
    }
    fn run(&self, case: &Value, ctx: &mut Ctx) -> Report {
        let mut rep = Report::default();
        if let Some(ci) = case["curried"].as_u64() {
            let (name, text, want) = curried_programs()[ci as usize].clone();
            let site = format!("curried={}", name);
            let replay = json!({"kind": "differential", "family": "typepos", "case": case, "source": text});
            rep.more_keys.push(fnv(&text));
            rep.sample = Some(json!({"source": text, "expected": want}));
            let path = ctx.scratch.single_path();
            match compile_at(&path, &text) {
                CompileOutcome::Ok(c) => {
                    let go = go_text(&c).unwrap_or_default();
                    drop(c);
                    match crate::projects::run_go(&go, FUEL) {
                        Ok(o) if lossy(&o.stdout) == want && o.end == NEnd::Ok => rep.tag("ok"),
                        Ok(o) => rep.findings.push(Finding { property: "C02", class: "typepos.output".into(), site, detail: format!("expected {:?} got {:?}/{}", want, lossy(&o.stdout), end_tag(&o.end)), replay }),
                        Err(m) if m.starts_with("machinery") => rep.tag("machinery:go-unsupported"),
                        Err(m) => rep.findings.push(Finding { property: "C02", class: m.split(':').next().unwrap_or("go").to_string(), site: format!("{};goerr={}", site, normalise_msg(&m)), detail: m, replay }),
                    }
                }
                CompileOutcome::Err(e) => {
                    // a function type whose result is a function type, written without parentheses, is well-formed:
                    // a rejection means the arrows were grouped to the left
                    let (stage, msg) = describe_err(&e);
                    rep.findings.push(Finding { property: "C02", class: format!("typepos.rejected.{}", stage), site: format!("{};msg={}", site, normalise_msg(&msg)), detail: msg, replay });
                }
                CompileOutcome::Panic(m) => rep.findings.push(Finding { property: "C04", class: "compile.panic".into(), site: format!("{};msg={}", site, normalise_msg(&m)), detail: m, replay }),
            }
            rep.outcome = Some(name);
            return rep;
        }
        let t = types(ctx.tier)[case["type"].as_u64().unwrap() as usize].clone();
        let mut n = 0u64;
        for pos in POSITIONS {
            n += 1;
            let text = program(&t, pos);
            let site = format!("type={};position={}", t, pos);
            let replay = json!({"kind": "differential", "family": "typepos", "case": case, "source": text});
            if !BASE.contains(&t.as_str()) {
                rep.more_keys.push(fnv(&text));
            }
            let path = ctx.scratch.single_path();
            let comp = match compile_at(&path, &text) {
                CompileOutcome::Ok(c) => c,
                CompileOutcome::Panic(m) => {
                    let m = normalise_msg(&m);
                    for p in ["C04", "C02"] {
                        rep.findings.push(Finding { property: p, class: "compile.panic".into(), site: format!("{};msg={}", site, m), detail: m.clone(), replay: replay.clone() });
                    }
                    continue;
                }
                CompileOutcome::Err(e) => {
                    let (stage, msg) = describe_err(&e);
                    rep.tag(format!("rejected:{}", stage));
                    // a rejection at the compile stage (after type checking) of a well-typed program is a defect of the
                    // back end; a typer rejection is recorded as a tag (inference limitation) but not judged
                    if stage == "compile" {
                        rep.findings.push(Finding { property: "C02", class: "compile.rejected.compile".into(), site: format!("{};msg={}", site, normalise_msg(&msg)), detail: msg, replay: replay.clone() });
                    }
                    continue;
                }
            };
            for (stage, msg) in crate::irck::check_all(&comp) {
                rep.findings.push(Finding { property: "C03", class: format!("irck.{}", stage), site: format!("{};msg={}", site, normalise_msg(&msg)), detail: msg, replay: replay.clone() });
            }
            let go = match go_text(&comp) {
                Ok(t) => t,
                Err(m) => {
                    rep.findings.push(Finding { property: "C04", class: "gopp.panic".into(), site: site.clone(), detail: m, replay: replay.clone() });
                    continue;
                }
            };
            drop(comp);
            match crate::projects::run_go(&go, FUEL) {
                Ok(o) => {
                    if lossy(&o.stdout) != "0\n" || o.end != NEnd::Ok {
                        rep.findings.push(Finding { property: "C02", class: "typepos.output".into(), site: site.clone(), detail: format!("expected \"0\\n\" got {:?}/{}", lossy(&o.stdout), end_tag(&o.end)), replay: replay.clone() });
                    } else {
                        rep.tag("ok");
                    }
                }
                Err(m) => {
                    if m.starts_with("machinery") {
                        rep.tag("machinery:go-unsupported");
                    } else {
                        let rule = m.split(':').next().unwrap_or("go").to_string();
                        for p in ["C02", "C19"] {
                            if p == "C19" && !(m.contains("redeclared") || m.contains("undefined")) {
                                continue;
                            }
                            rep.findings.push(Finding { property: p, class: rule.clone(), site: format!("{};goerr={}", site, normalise_msg(&m)), detail: m.clone(), replay: json!({"kind": "differential", "family": "typepos", "case": case, "source": text, "observed": {"go_text": go}}) });
                        }
                    }
                }
            }
        }
        rep.sub_evaluations = n;
        rep.outcome = Some(t.clone());
        rep.sample = Some(json!({"type": t, "positions": POSITIONS, "example": program(&t, "let-vec")}));
        rep
    }
}

fn fnv(s: &str) -> u64 {
    let mut h: u64 = 0xcbf29ce484222325;
    for b in s.as_bytes() {
        h ^= *b as u64;
        h = h.wrapping_mul(0x100000001b3);
    }
    h
}

/// function types whose result is a function type, written without parentheses (`->` groups to the
/// right), used: the value is applied one argument at a time
fn curried_programs() -> Vec<(String, String, String)> {
    let mut v = Vec::new();
    let base = "fn k3(c: bool) -> int32 { if c { 7 } else { 8 } }\nfn k2(b: int32) -> (bool) -> int32 { k3 }\nfn k1(a: string) -> (int32) -> (bool) -> int32 { k2 }\n";
    for (name, ty, init, call) in [
        ("two-arrows-let", "(int32) -> (bool) -> int32", "k2", "f(1)(true)"),
        ("three-arrows-let", "(string) -> (int32) -> (bool) -> int32", "k1", "f(\"s\")(1)(false) - 1"),
    ] {
        v.push((name.to_string(), format!("{}fn main() {{\n    let f: {} = {};\n    let g = {};\n    string_println(int32_to_string(g))\n}}\n", base, ty, init, call), "7\n".to_string()));
    }
    v.push((
        "two-arrows-param".into(),
        format!("{}fn use_it(f: (int32) -> (bool) -> int32) -> int32 {{ let g = f(1); g(true) }}\nfn main() {{\n    string_println(int32_to_string(use_it(k2)))\n}}\n", base),
        "7\n".into(),
    ));
    v.push((
        "two-arrows-field".into(),
        format!("{}struct H {{ f: (int32) -> (bool) -> int32 }}\nfn main() {{\n    let h = H {{ f: k2 }};\n    let ff = h.f;\n    let g = ff(1);\n    string_println(int32_to_string(g(true)))\n}}\n", base),
        "7\n".into(),
    ));
    v.push((
        "arrow-in-vec-elem".into(),
        format!("{}fn main() {{\n    let w: Vec[(int32) -> (bool) -> int32] = vec_push(vec_new(), k2);\n    let f = vec_get(w, 0);\n    let g = f(1);\n    string_println(int32_to_string(g(true)))\n}}\n", base),
        "7\n".into(),
    ));
    v
}
