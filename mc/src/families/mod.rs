pub mod closures;
pub mod common;
pub mod corpus;
pub mod derive;
pub mod determinism;
pub mod evalorder;
pub mod attributes;
pub mod discard;
pub mod queryhist;
pub mod sepinputs;
pub mod externs;
pub mod fnvalues;
pub mod generics;
pub mod helpertypes;
pub mod illtyped;
pub mod inference;
pub mod isolation;
pub mod lattice;
pub mod methods;
pub mod names;
pub mod numbers;
pub mod parse_rt;
pub mod patterns;
pub mod query;
pub mod completions;
pub mod cli;
pub mod equality;
pub mod schedules;
pub mod shapes;
pub mod sizes;
pub mod goforms;
pub mod scoping;
pub mod sepcomp;
pub mod staleness;
pub mod text;
pub mod typepos;
pub mod vecs;

use crate::drive::Family;

pub fn all() -> Vec<Box<dyn Family>> {
    vec![
        Box::new(lattice::Lattice),
        Box::new(corpus::Corpus),
        Box::new(text::strings()),
        Box::new(text::tokens()),
        Box::new(text::numerals()),
        Box::new(text::Ladders),
        Box::new(text::CorpusMut),
        Box::new(parse_rt::ParseTrees),
        Box::new(parse_rt::Literals),
        Box::new(query::QueryTotal),
        Box::new(query::QueryAgree),
        Box::new(query::HoverAll),
        Box::new(completions::Completions),
        Box::new(cli::Cli),
        Box::new(equality::Equality),
        Box::new(scoping::Scoping),
        Box::new(patterns::Patterns),
        Box::new(evalorder::EvalOrder),
        Box::new(schedules::Schedules),
        Box::new(goforms::GoForms),
        Box::new(numbers::Numbers),
        Box::new(vecs::Vecs),
        Box::new(sizes::Sizes),
        Box::new(closures::Closures),
        Box::new(fnvalues::FnValues),
        Box::new(externs::Externs),
        Box::new(discard::Discard),
        Box::new(attributes::Attributes),
        Box::new(queryhist::QueryHistories),
        Box::new(sepinputs::SepInputs),
        Box::new(generics::Generics),
        Box::new(helpertypes::HelperTypes),
        Box::new(methods::Methods),
        Box::new(derive::Derive),
        Box::new(names::NamesFamily),
        Box::new(names::Encoders),
        Box::new(shapes::Shapes),
        Box::new(illtyped::IllTyped),
        Box::new(typepos::TypePos),
        Box::new(inference::Inference),
        Box::new(sepcomp::SepComp),
        Box::new(isolation::Isolation),
        Box::new(determinism::Determinism),
        Box::new(staleness::Staleness),
    ]
}

pub fn by_name(name: &str) -> Option<Box<dyn Family>> {
    all().into_iter().find(|f| f.name() == name)
}

pub fn for_property(p: &str) -> Vec<Box<dyn Family>> {
    all().into_iter().filter(|f| f.serves().contains(&p)).collect()
}

pub fn assumptions(property: &str) -> Vec<String> {
    let mut v = vec![
        "bounded-exhaustive: the claim covers exactly the enumerated families up to the stated bounds".to_string(),
        "the emitted Go is judged by /verif/mc/src/gosem (hand-written Go-subset parser, checker and interpreter), bound to real Go by the 74 recorded golden outputs and a negative table".to_string(),
    ];
    match property {
        "C01" | "C06" | "C07" | "C08" | "C09" | "C10" | "C17" | "C18" | "C19" => {
            v.push("source-level meaning is given by the µgoml reference evaluator (/verif/mc/src/ug/eval.rs)".to_string())
        }
        _ => {}
    }
    v
}
