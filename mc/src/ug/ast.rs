//! µgoml: the model language owned by the harness. Binders are identities
//! (VarId), so the reference semantics cannot suffer from capture and the
//! printer is free to choose colliding spellings.

pub use crate::gosem::syntax::IntKind;

#[derive(Debug, Clone, PartialEq, Eq, Hash)]
pub enum Ty {
    Unit,
    Bool,
    Int(IntKind),
    F32,
    F64,
    Str,
    Tuple(Vec<Ty>),
    Array(usize, Box<Ty>),
    Vec(Box<Ty>),
    Ref(Box<Ty>),
    Fn(Vec<Ty>, Box<Ty>),
    /// struct or enum, with type arguments
    Named(String, Vec<Ty>),
    Dyn(String),
    Param(String),
}

impl Ty {
    pub fn i32() -> Ty {
        Ty::Int(IntKind::I32)
    }
    pub fn named(n: &str) -> Ty {
        Ty::Named(n.to_string(), vec![])
    }
    pub fn subst(&self, s: &[(String, Ty)]) -> Ty {
        match self {
            Ty::Param(p) => s.iter().find(|(n, _)| n == p).map(|(_, t)| t.clone()).unwrap_or_else(|| self.clone()),
            Ty::Tuple(ts) => Ty::Tuple(ts.iter().map(|t| t.subst(s)).collect()),
            Ty::Array(n, t) => Ty::Array(*n, Box::new(t.subst(s))),
            Ty::Vec(t) => Ty::Vec(Box::new(t.subst(s))),
            Ty::Ref(t) => Ty::Ref(Box::new(t.subst(s))),
            Ty::Fn(ps, r) => Ty::Fn(ps.iter().map(|t| t.subst(s)).collect(), Box::new(r.subst(s))),
            Ty::Named(n, ts) => Ty::Named(n.clone(), ts.iter().map(|t| t.subst(s)).collect()),
            o => o.clone(),
        }
    }
}

pub type VarId = u32;

#[derive(Debug, Clone, Copy, PartialEq, Eq, Hash)]
pub enum UnOp {
    Neg,
    Not,
}

#[derive(Debug, Clone, Copy, PartialEq, Eq, Hash)]
pub enum BinOp {
    Add,
    Sub,
    Mul,
    Div,
    Lt,
    Gt,
    Le,
    Ge,
    Eq,
    Ne,
    And,
    Or,
}

impl BinOp {
    pub const ALL: [BinOp; 12] = [
        BinOp::Add,
        BinOp::Sub,
        BinOp::Mul,
        BinOp::Div,
        BinOp::Lt,
        BinOp::Gt,
        BinOp::Le,
        BinOp::Ge,
        BinOp::Eq,
        BinOp::Ne,
        BinOp::And,
        BinOp::Or,
    ];
    pub fn sym(self) -> &'static str {
        match self {
            BinOp::Add => "+",
            BinOp::Sub => "-",
            BinOp::Mul => "*",
            BinOp::Div => "/",
            BinOp::Lt => "<",
            BinOp::Gt => ">",
            BinOp::Le => "<=",
            BinOp::Ge => ">=",
            BinOp::Eq => "==",
            BinOp::Ne => "!=",
            BinOp::And => "&&",
            BinOp::Or => "||",
        }
    }
    /// documented binding power (higher binds tighter)
    pub fn prec(self) -> u8 {
        match self {
            BinOp::Or => 1,
            BinOp::And => 2,
            BinOp::Eq | BinOp::Ne => 3,
            BinOp::Lt | BinOp::Gt | BinOp::Le | BinOp::Ge => 4,
            BinOp::Add | BinOp::Sub => 5,
            BinOp::Mul | BinOp::Div => 6,
        }
    }
}

#[derive(Debug, Clone, PartialEq)]
pub enum Pat {
    Wild,
    Var(VarId),
    Unit,
    Bool(bool),
    /// value, type, print suffix?
    Int(i128, IntKind, bool),
    Str(String),
    Tuple(Vec<Pat>),
    /// enum name, variant name, qualified spelling (`E::V`)?, sub-patterns
    Ctor(String, String, bool, Vec<Pat>),
    Struct(String, Vec<(String, Pat)>),
}

#[derive(Debug, Clone, PartialEq)]
pub enum Stmt {
    Let(Pat, Option<Ty>, E),
    Expr(E),
}

/// how a method call is spelled
#[derive(Debug, Clone, Copy, PartialEq, Eq, Hash)]
pub enum CallForm {
    /// `x.m(a)`
    Dot,
    /// `T::m(x, a)` (inherent) / `Tr::m(x, a)` (trait)
    Path,
}

#[derive(Debug, Clone, PartialEq)]
pub enum E {
    Unit,
    Bool(bool),
    /// value, type, print the suffix?
    Int(i128, IntKind, bool),
    /// spelling, is_f32, print the suffix?
    Float(String, bool, bool),
    Str(String),
    Var(VarId),
    /// reference to a top-level function (as a value or as callee); explicit type args for the model
    FnRef(String, Vec<Ty>),
    Call(Box<E>, Vec<E>),
    /// builtin by name (string_println, ref, ref_get, vec_push, array_get, *_to_string, …)
    Builtin(String, Vec<E>),
    /// inherent method: (type name, method, form, receiver+args, type args of the impl)
    Inherent(String, String, CallForm, Vec<E>, Vec<Ty>),
    /// trait method: (trait, method, form, receiver+args, static receiver type (may contain params))
    TraitCall(String, String, CallForm, Vec<E>, Ty),
    /// implicit coercion of a value of concrete type to `dyn Tr` (prints as the inner expression)
    ToDyn(String, Box<E>, Ty),
    /// enum, variant, qualified spelling?, args, type args
    Ctor(String, String, bool, Vec<E>, Vec<Ty>),
    /// struct name, (field, value) in written order, type args
    StructLit(String, Vec<(String, E)>, Vec<Ty>),
    Tuple(Vec<E>),
    Array(Vec<E>),
    Block(Vec<Stmt>, Option<Box<E>>),
    Closure(Vec<(VarId, Option<Ty>)>, Box<E>),
    Match(Box<E>, Vec<(Pat, E)>),
    If(Box<E>, Box<E>, Box<E>),
    While(Box<E>, Box<E>),
    Go(Box<E>),
    Unary(UnOp, Box<E>),
    Binary(BinOp, Box<E>, Box<E>),
    Proj(Box<E>, usize),
    Field(Box<E>, String),
    /// force parentheses in the printed text (semantically transparent)
    Paren(Box<E>),
}

impl E {
    pub fn i32(v: i128) -> E {
        E::Int(v, IntKind::I32, false)
    }
    pub fn str(s: &str) -> E {
        E::Str(s.to_string())
    }
    pub fn call_fn(name: &str, args: Vec<E>) -> E {
        E::Call(Box::new(E::FnRef(name.to_string(), vec![])), args)
    }
    pub fn bi(name: &str, args: Vec<E>) -> E {
        E::Builtin(name.to_string(), args)
    }
    pub fn println(e: E) -> E {
        E::bi("string_println", vec![e])
    }
    pub fn block(stmts: Vec<Stmt>, tail: Option<E>) -> E {
        E::Block(stmts, tail.map(Box::new))
    }
    pub fn bin(op: BinOp, l: E, r: E) -> E {
        E::Binary(op, Box::new(l), Box::new(r))
    }
}

#[derive(Debug, Clone, PartialEq)]
pub struct FnDef {
    pub name: String,
    pub generics: Vec<String>,
    /// (type param, trait bounds)
    pub bounds: Vec<(String, Vec<String>)>,
    pub params: Vec<(VarId, Ty)>,
    pub ret: Option<Ty>,
    pub body: E,
}

#[derive(Debug, Clone, PartialEq)]
pub struct StructDef {
    pub name: String,
    pub generics: Vec<String>,
    pub fields: Vec<(String, Ty)>,
    pub derives: Vec<String>,
}

#[derive(Debug, Clone, PartialEq)]
pub struct EnumDef {
    pub name: String,
    pub generics: Vec<String>,
    pub variants: Vec<(String, Vec<Ty>)>,
    pub derives: Vec<String>,
}

#[derive(Debug, Clone, PartialEq)]
pub struct TraitDef {
    pub name: String,
    /// (method, param types incl. Self as Ty::Param("Self"), ret)
    pub methods: Vec<(String, Vec<Ty>, Ty)>,
}

#[derive(Debug, Clone, PartialEq)]
pub struct ImplDef {
    pub generics: Vec<String>,
    pub trait_name: Option<String>,
    pub for_ty: Ty,
    pub methods: Vec<FnDef>,
}

#[derive(Debug, Clone, PartialEq)]
pub enum Item {
    Fn(FnDef),
    Struct(StructDef),
    Enum(EnumDef),
    Trait(TraitDef),
    Impl(ImplDef),
    /// raw text item (extern declarations etc.), not interpreted
    Raw(String),
}

#[derive(Debug, Clone, PartialEq, Default)]
pub struct Package {
    pub name: Option<String>,
    pub imports: Vec<String>,
    pub items: Vec<Item>,
}

#[derive(Debug, Clone, PartialEq, Default)]
pub struct Program {
    /// entry package first
    pub packages: Vec<Package>,
    /// printed spelling of every binder
    pub names: Vec<String>,
}

impl Program {
    pub fn single(items: Vec<Item>, names: Vec<String>) -> Program {
        Program {
            packages: vec![Package {
                name: None,
                imports: vec![],
                items,
            }],
            names,
        }
    }
    pub fn items(&self) -> impl Iterator<Item = &Item> {
        self.packages.iter().flat_map(|p| p.items.iter())
    }
}

/// helper for building programs: allocates binder ids
#[derive(Debug, Default, Clone)]
pub struct Names {
    pub names: Vec<String>,
}

impl Names {
    pub fn new() -> Names {
        Names { names: Vec::new() }
    }
    /// a binder whose spelling is unique in the program (a counter is appended on reuse)
    pub fn fresh(&mut self, spelling: &str) -> VarId {
        let mut sp = spelling.to_string();
        let mut i = 1;
        while self.names.iter().any(|n| *n == sp) {
            i += 1;
            sp = format!("{}{}", spelling, i);
        }
        self.names.push(sp);
        (self.names.len() - 1) as VarId
    }
    /// a binder with exactly this spelling (deliberate shadowing / collisions)
    pub fn fresh_exact(&mut self, spelling: &str) -> VarId {
        self.names.push(spelling.to_string());
        (self.names.len() - 1) as VarId
    }
}
