//! µgoml → `.gom` text. Minimal parentheses from the documented precedence
//! table (or full parentheses), per Appendix B of DESIGN.md.

use super::ast::*;

#[derive(Debug, Clone, Copy, PartialEq, Eq)]
pub enum Parens {
    Minimal,
    Full,
}

pub struct Printer<'a> {
    pub names: &'a [String],
    pub parens: Parens,
}

pub fn ty_str(t: &Ty) -> String {
    match t {
        Ty::Unit => "unit".into(),
        Ty::Bool => "bool".into(),
        Ty::Int(k) => k.name().into(),
        Ty::F32 => "float32".into(),
        Ty::F64 => "float64".into(),
        Ty::Str => "string".into(),
        Ty::Tuple(ts) => format!("({})", ts.iter().map(ty_str).collect::<Vec<_>>().join(", ")),
        Ty::Array(n, t) => format!("[{}; {}]", ty_str(t), n),
        Ty::Vec(t) => format!("Vec[{}]", ty_str(t)),
        Ty::Ref(t) => format!("Ref[{}]", ty_str(t)),
        Ty::Fn(ps, r) => format!("({}) -> {}", ps.iter().map(ty_str).collect::<Vec<_>>().join(", "), ty_str(r)),
        Ty::Named(n, ts) => {
            if ts.is_empty() {
                n.clone()
            } else {
                format!("{}[{}]", n, ts.iter().map(ty_str).collect::<Vec<_>>().join(", "))
            }
        }
        Ty::Dyn(t) => format!("dyn {}", t),
        Ty::Param(p) => p.clone(),
    }
}

pub fn escape_str(s: &str) -> String {
    let mut o = String::from("\"");
    for c in s.chars() {
        match c {
            '"' => o.push_str("\\\""),
            '\\' => o.push_str("\\\\"),
            '\n' => o.push_str("\\n"),
            '\r' => o.push_str("\\r"),
            '\t' => o.push_str("\\t"),
            '\u{8}' => o.push_str("\\b"),
            '\u{c}' => o.push_str("\\f"),
            c if (c as u32) < 0x20 => o.push_str(&format!("\\u{:04x}", c as u32)),
            c => o.push(c),
        }
    }
    o.push('"');
    o
}

/// context precedence levels: 0 = anything, 1..=6 binary operator levels, 7 = prefix operand,
/// 8 = postfix base (call/field/proj receiver)
const P_PREFIX: u8 = 7;
const P_POSTFIX: u8 = 8;

impl<'a> Printer<'a> {
    pub fn new(names: &'a [String]) -> Printer<'a> {
        Printer {
            names,
            parens: Parens::Minimal,
        }
    }
    fn name(&self, v: VarId) -> &str {
        &self.names[v as usize]
    }

    pub fn pat(&self, p: &Pat) -> String {
        match p {
            Pat::Wild => "_".into(),
            Pat::Var(v) => self.name(*v).to_string(),
            Pat::Unit => "()".into(),
            Pat::Bool(b) => b.to_string(),
            Pat::Int(v, k, suffix) => {
                if *suffix {
                    format!("{}{}", v, suffix_of(*k))
                } else {
                    v.to_string()
                }
            }
            Pat::Str(s) => escape_str(s),
            Pat::Tuple(ps) => format!("({})", ps.iter().map(|p| self.pat(p)).collect::<Vec<_>>().join(", ")),
            Pat::Ctor(en, v, q, ps) => {
                let head = if *q { format!("{}::{}", en, v) } else { v.clone() };
                if ps.is_empty() {
                    head
                } else {
                    format!("{}({})", head, ps.iter().map(|p| self.pat(p)).collect::<Vec<_>>().join(", "))
                }
            }
            Pat::Struct(n, fs) => format!(
                "{} {{ {} }}",
                n,
                fs.iter().map(|(f, p)| format!("{}: {}", f, self.pat(p))).collect::<Vec<_>>().join(", ")
            ),
        }
    }

    fn wrap(&self, s: String, my: u8, ctx: u8) -> String {
        if my < ctx || (self.parens == Parens::Full && my < P_POSTFIX && ctx > 0) {
            format!("({})", s)
        } else {
            s
        }
    }

    /// a `{ … }` body (fn body, branch, arm body, closure body, while body)
    pub fn body(&self, e: &E, ind: usize) -> String {
        let pad = "    ".repeat(ind + 1);
        let close = "    ".repeat(ind);
        match e {
            E::Block(stmts, tail) if stmts.is_empty() && tail.is_none() => "{ () }".to_string(),
            E::Block(stmts, tail) => {
                let mut o = String::from("{\n");
                for s in stmts {
                    match s {
                        Stmt::Let(p, t, v) => {
                            o.push_str(&pad);
                            o.push_str("let ");
                            o.push_str(&self.pat(p));
                            if let Some(t) = t {
                                o.push_str(": ");
                                o.push_str(&ty_str(t));
                            }
                            o.push_str(" = ");
                            o.push_str(&self.expr(v, 0, ind + 1));
                            o.push_str(";\n");
                        }
                        Stmt::Expr(v) => {
                            o.push_str(&pad);
                            o.push_str(&self.expr(v, 0, ind + 1));
                            o.push_str(";\n");
                        }
                    }
                }
                if let Some(t) = tail {
                    o.push_str(&pad);
                    o.push_str(&self.expr(t, 0, ind + 1));
                    o.push('\n');
                }
                o.push_str(&close);
                o.push('}');
                o
            }
            other => {
                // never print `ident {}`-shaped bodies that could be misread: always a full block
                format!("{{\n{}{}\n{}}}", pad, self.expr(other, 0, ind + 1), close)
            }
        }
    }

    pub fn expr(&self, e: &E, ctx: u8, ind: usize) -> String {
        match e {
            E::Unit => "()".into(),
            E::Bool(b) => b.to_string(),
            E::Int(v, k, suffix) => {
                let s = if *suffix { format!("{}{}", v.abs(), suffix_of(*k)) } else { v.abs().to_string() };
                if *v < 0 {
                    self.wrap(format!("-{}", s), P_PREFIX, ctx)
                } else {
                    s
                }
            }
            E::Float(sp, is32, suffix) => {
                let neg = sp.starts_with('-');
                let body = sp.trim_start_matches('-');
                let s = if *suffix { format!("{}{}", body, if *is32 { "f32" } else { "f64" }) } else { body.to_string() };
                if neg {
                    self.wrap(format!("-{}", s), P_PREFIX, ctx)
                } else {
                    s
                }
            }
            E::Str(s) => escape_str(s),
            E::Var(v) => self.name(*v).to_string(),
            E::FnRef(n, _) => n.clone(),
            E::Paren(inner) => format!("({})", self.expr(inner, 0, ind)),
            E::Call(f, args) => {
                // `h.f(x)` is a method call in goml; calling a function-typed field is `(h.f)(x)`
                let fs = if matches!(**f, E::Field(..)) { format!("({})", self.expr(f, 0, ind)) } else { self.expr(f, P_POSTFIX, ind) };
                format!("{}({})", fs, self.args(args, ind))
            }
            E::Builtin(n, args) => format!("{}({})", n, self.args(args, ind)),
            E::Inherent(tn, m, form, args, _) => match form {
                CallForm::Dot => {
                    let recv = self.expr(&args[0], P_POSTFIX, ind);
                    format!("{}.{}({})", recv, m, self.args(&args[1..], ind))
                }
                CallForm::Path => format!("{}::{}({})", tn, m, self.args(args, ind)),
            },
            E::TraitCall(tr, m, form, args, _) => match form {
                CallForm::Dot => {
                    let recv = self.expr(&args[0], P_POSTFIX, ind);
                    format!("{}.{}({})", recv, m, self.args(&args[1..], ind))
                }
                CallForm::Path => format!("{}::{}({})", tr, m, self.args(args, ind)),
            },
            E::ToDyn(_, inner, _) => self.expr(inner, ctx, ind),
            E::Ctor(en, v, q, args, _) => {
                let head = if *q { format!("{}::{}", en, v) } else { v.clone() };
                if args.is_empty() {
                    head
                } else {
                    format!("{}({})", head, self.args(args, ind))
                }
            }
            E::StructLit(n, fs, _) => {
                if fs.is_empty() {
                    format!("{} {{}}", n)
                } else {
                    format!(
                        "{} {{ {} }}",
                        n,
                        fs.iter().map(|(f, v)| format!("{}: {}", f, self.expr(v, 0, ind))).collect::<Vec<_>>().join(", ")
                    )
                }
            }
            E::Tuple(items) => format!("({})", self.args(items, ind)),
            E::Array(items) => format!("[{}]", self.args(items, ind)),
            E::Block(..) => {
                // no block-expression atom in goml: wrap as an immediately-taken `if true` branch is
                // NOT semantics-preserving for scoping tests, so blocks may only appear as bodies.
                panic!("µgoml printer: Block in expression position")
            }
            E::Closure(params, body) => {
                let ps = params
                    .iter()
                    .map(|(v, t)| match t {
                        Some(t) => format!("{}: {}", self.name(*v), ty_str(t)),
                        None => self.name(*v).to_string(),
                    })
                    .collect::<Vec<_>>()
                    .join(", ");
                let s = format!("|{}| {}", ps, self.body(body, ind));
                self.wrap(s, 0, ctx)
            }
            E::Match(scrut, arms) => {
                let pad = "    ".repeat(ind + 1);
                let mut o = format!("match {} {{\n", self.header(scrut, ind));
                for (p, b) in arms {
                    o.push_str(&pad);
                    o.push_str(&self.pat(p));
                    o.push_str(" => ");
                    o.push_str(&self.body(b, ind + 1));
                    o.push_str(",\n");
                }
                o.push_str(&"    ".repeat(ind));
                o.push('}');
                self.wrap(o, 0, ctx)
            }
            E::If(c, t, f) => {
                let s = format!("if {} {} else {}", self.header(c, ind), self.body(t, ind), self.body(f, ind));
                self.wrap(s, 0, ctx)
            }
            E::While(c, b) => {
                let s = format!("while {} {}", self.header(c, ind), self.body(b, ind));
                self.wrap(s, 0, ctx)
            }
            E::Go(c) => {
                let s = format!("go {}", self.expr(c, 0, ind));
                self.wrap(s, 0, ctx)
            }
            E::Unary(op, inner) => {
                let sym = match op {
                    UnOp::Neg => "-",
                    UnOp::Not => "!",
                };
                let s = format!("{}{}", sym, self.expr(inner, P_PREFIX, ind));
                self.wrap(s, P_PREFIX, ctx)
            }
            E::Binary(op, l, r) => {
                let p = op.prec();
                // left-associative: rhs needs strictly higher precedence
                let s = format!("{} {} {}", self.expr(l, p, ind), op.sym(), self.expr(r, p + 1, ind));
                self.wrap(s, p, ctx)
            }
            E::Proj(t, i) => format!("{}.{}", self.expr(t, P_POSTFIX, ind), i),
            E::Field(o, f) => format!("{}.{}", self.expr(o, P_POSTFIX, ind), f),
        }
    }

    /// condition / scrutinee position: a bare identifier followed by `{` may be misparsed as a
    /// struct literal, and struct literals themselves need parentheses.
    fn header(&self, e: &E, ind: usize) -> String {
        match e {
            E::StructLit(..) => format!("({})", self.expr(e, 0, ind)),
            _ => self.expr(e, 0, ind),
        }
    }

    fn args(&self, args: &[E], ind: usize) -> String {
        args.iter().map(|a| self.expr(a, 0, ind)).collect::<Vec<_>>().join(", ")
    }

    fn generics(&self, gs: &[String], bounds: &[(String, Vec<String>)]) -> String {
        if gs.is_empty() {
            return String::new();
        }
        let parts: Vec<String> = gs
            .iter()
            .map(|g| match bounds.iter().find(|(n, _)| n == g) {
                Some((_, bs)) if !bs.is_empty() => format!("{}: {}", g, bs.join(" + ")),
                _ => g.clone(),
            })
            .collect();
        format!("[{}]", parts.join(", "))
    }

    pub fn fn_def(&self, f: &FnDef, ind: usize) -> String {
        let pad = "    ".repeat(ind);
        let ps = f.params.iter().map(|(v, t)| format!("{}: {}", self.name(*v), ty_str(t))).collect::<Vec<_>>().join(", ");
        let ret = match &f.ret {
            Some(t) => format!(" -> {}", ty_str(t)),
            None => String::new(),
        };
        format!("{}fn {}{}({}){} {}\n", pad, f.name, self.generics(&f.generics, &f.bounds), ps, ret, self.body(&f.body, ind))
    }

    pub fn item(&self, it: &Item) -> String {
        match it {
            Item::Fn(f) => self.fn_def(f, 0),
            Item::Struct(s) => {
                let mut o = String::new();
                if !s.derives.is_empty() {
                    o.push_str(&format!("#[derive({})]\n", s.derives.join(", ")));
                }
                o.push_str(&format!("struct {}{} {{\n", s.name, self.generics(&s.generics, &[])));
                for (f, t) in &s.fields {
                    o.push_str(&format!("    {}: {},\n", f, ty_str(t)));
                }
                o.push_str("}\n");
                o
            }
            Item::Enum(e) => {
                let mut o = String::new();
                if !e.derives.is_empty() {
                    o.push_str(&format!("#[derive({})]\n", e.derives.join(", ")));
                }
                o.push_str(&format!("enum {}{} {{\n", e.name, self.generics(&e.generics, &[])));
                for (v, ts) in &e.variants {
                    if ts.is_empty() {
                        o.push_str(&format!("    {},\n", v));
                    } else {
                        o.push_str(&format!("    {}({}),\n", v, ts.iter().map(ty_str).collect::<Vec<_>>().join(", ")));
                    }
                }
                o.push_str("}\n");
                o
            }
            Item::Trait(t) => {
                let mut o = format!("trait {} {{\n", t.name);
                for (m, ps, r) in &t.methods {
                    o.push_str(&format!("    fn {}({}) -> {};\n", m, ps.iter().map(ty_str).collect::<Vec<_>>().join(", "), ty_str(r)));
                }
                o.push_str("}\n");
                o
            }
            Item::Impl(im) => {
                let g = self.generics(&im.generics, &[]);
                let mut o = match &im.trait_name {
                    Some(t) => format!("impl{} {} for {} {{\n", g, t, ty_str(&im.for_ty)),
                    None => format!("impl{} {} {{\n", g, ty_str(&im.for_ty)),
                };
                for m in &im.methods {
                    o.push_str(&self.fn_def(m, 1));
                }
                o.push_str("}\n");
                o
            }
            Item::Raw(s) => format!("{}\n", s),
        }
    }

    pub fn package(&self, p: &Package) -> String {
        let mut o = String::new();
        if let Some(n) = &p.name {
            o.push_str(&format!("package {}\n", n));
        }
        for i in &p.imports {
            o.push_str(&format!("import {}\n", i));
        }
        if !p.imports.is_empty() {
            o.push('\n');
        }
        for it in &p.items {
            o.push_str(&self.item(it));
            o.push('\n');
        }
        o
    }
}

pub fn suffix_of(k: IntKind) -> &'static str {
    match k {
        IntKind::I8 => "i8",
        IntKind::I16 => "i16",
        IntKind::I32 => "i32",
        IntKind::I64 => "i64",
        IntKind::U8 => "u8",
        IntKind::U16 => "u16",
        IntKind::U32 => "u32",
        IntKind::U64 => "u64",
        IntKind::Int => "",
    }
}

/// print the entry package of a program
pub fn print_main(p: &Program) -> String {
    Printer::new(&p.names).package(&p.packages[0])
}
