//! Small builder DSL for µgoml programs + the shared probe/show prelude.

use super::ast::*;

pub fn v(id: VarId) -> E {
    E::Var(id)
}
pub fn int(n: i128) -> E {
    E::i32(n)
}
pub fn i8v(n: i128) -> E {
    E::Int(n, IntKind::I8, true)
}
pub fn s(x: &str) -> E {
    E::str(x)
}
pub fn call(f: &str, args: Vec<E>) -> E {
    E::call_fn(f, args)
}
pub fn callg(f: &str, targs: Vec<Ty>, args: Vec<E>) -> E {
    E::Call(Box::new(E::FnRef(f.to_string(), targs)), args)
}
pub fn bi(f: &str, args: Vec<E>) -> E {
    E::bi(f, args)
}
pub fn bin(op: BinOp, l: E, r: E) -> E {
    E::bin(op, l, r)
}
pub fn add(l: E, r: E) -> E {
    bin(BinOp::Add, l, r)
}
pub fn let_(id: VarId, e: E) -> Stmt {
    Stmt::Let(Pat::Var(id), None, e)
}
pub fn let_t(id: VarId, t: Ty, e: E) -> Stmt {
    Stmt::Let(Pat::Var(id), Some(t), e)
}
pub fn st(e: E) -> Stmt {
    Stmt::Expr(e)
}
pub fn block(stmts: Vec<Stmt>, tail: Option<E>) -> E {
    E::block(stmts, tail)
}
pub fn if_(c: E, t: E, f: E) -> E {
    E::If(Box::new(c), Box::new(t), Box::new(f))
}
pub fn println(e: E) -> E {
    bi("string_println", vec![e])
}
pub fn i2s(e: E) -> E {
    bi("int32_to_string", vec![e])
}
pub fn tuple_ib() -> Ty {
    Ty::Tuple(vec![Ty::i32(), Ty::Bool])
}

pub fn fn_def(name: &str, params: Vec<(VarId, Ty)>, ret: Option<Ty>, body: E) -> Item {
    Item::Fn(FnDef {
        name: name.to_string(),
        generics: vec![],
        bounds: vec![],
        params,
        ret,
        body,
    })
}

/// The six-type alphabet of the feature lattice.
#[derive(Debug, Clone, Copy, PartialEq, Eq, Hash)]
pub enum T6 {
    Unit,
    Bool,
    I32,
    I8,
    Str,
    Pair,
}

impl T6 {
    pub const ALL: [T6; 6] = [T6::I32, T6::Bool, T6::Str, T6::Unit, T6::I8, T6::Pair];
    pub fn ty(self) -> Ty {
        match self {
            T6::Unit => Ty::Unit,
            T6::Bool => Ty::Bool,
            T6::I32 => Ty::i32(),
            T6::I8 => Ty::Int(IntKind::I8),
            T6::Str => Ty::Str,
            T6::Pair => tuple_ib(),
        }
    }
    pub fn tag(self) -> &'static str {
        match self {
            T6::Unit => "unit",
            T6::Bool => "bool",
            T6::I32 => "int32",
            T6::I8 => "int8",
            T6::Str => "string",
            T6::Pair => "pair",
        }
    }
    pub fn show_fn(self) -> &'static str {
        match self {
            T6::Unit => "showU",
            T6::Bool => "showB",
            T6::I32 => "showI",
            T6::I8 => "show8",
            T6::Str => "showS",
            T6::Pair => "showP",
        }
    }
    /// effect probe of this type: prints `t<k>` and returns a value determined by k
    pub fn probe(self, k: i128) -> E {
        match self {
            T6::Unit => call("tU", vec![int(k)]),
            T6::Bool => call("tB", vec![int(k), E::Bool(k % 2 == 1)]),
            T6::I32 => call("tI", vec![int(k)]),
            T6::I8 => call("t8", vec![int(k), i8v(100 + k)]),
            T6::Str => call("tS", vec![int(k)]),
            T6::Pair => call("tP", vec![int(k)]),
        }
    }
    pub fn default(self) -> E {
        match self {
            T6::Unit => E::Unit,
            T6::Bool => E::Bool(false),
            T6::I32 => int(0),
            T6::I8 => i8v(0),
            T6::Str => s("d"),
            T6::Pair => E::Tuple(vec![int(0), E::Bool(false)]),
        }
    }
    pub fn show(self, e: E) -> E {
        call(self.show_fn(), vec![e])
    }
}

/// probe + show helper functions (all of them; unused ones are harmless)
pub fn prelude(n: &mut Names) -> Vec<Item> {
    let mut items = Vec::new();
    let tag = |k: VarId| println(add(s("t"), i2s(v(k))));
    {
        let k = n.fresh("k");
        items.push(fn_def("tI", vec![(k, Ty::i32())], Some(Ty::i32()), block(vec![st(tag(k))], Some(v(k)))));
    }
    {
        let k = n.fresh("k");
        let x = n.fresh("x");
        items.push(fn_def("tB", vec![(k, Ty::i32()), (x, Ty::Bool)], Some(Ty::Bool), block(vec![st(tag(k))], Some(v(x)))));
    }
    {
        let k = n.fresh("k");
        items.push(fn_def("tS", vec![(k, Ty::i32())], Some(Ty::Str), block(vec![st(tag(k))], Some(add(s("s"), i2s(v(k)))))));
    }
    {
        let k = n.fresh("k");
        items.push(fn_def("tU", vec![(k, Ty::i32())], Some(Ty::Unit), block(vec![st(tag(k))], Some(E::Unit))));
    }
    {
        let k = n.fresh("k");
        let x = n.fresh("x");
        items.push(fn_def(
            "t8",
            vec![(k, Ty::i32()), (x, Ty::Int(IntKind::I8))],
            Some(Ty::Int(IntKind::I8)),
            block(vec![st(tag(k))], Some(v(x))),
        ));
    }
    {
        let k = n.fresh("k");
        items.push(fn_def(
            "tP",
            vec![(k, Ty::i32())],
            Some(tuple_ib()),
            block(vec![st(tag(k))], Some(E::Tuple(vec![v(k), E::Bool(true)]))),
        ));
    }
    let show = |name: &str, t: Ty, n: &mut Names, render: &dyn Fn(E) -> E| {
        let x = n.fresh("x");
        fn_def(name, vec![(x, t)], Some(Ty::Unit), block(vec![], Some(println(add(s("="), render(v(x)))))))
    };
    items.push(show("showI", Ty::i32(), n, &|e| i2s(e)));
    items.push(show("showB", Ty::Bool, n, &|e| bi("bool_to_string", vec![e])));
    items.push(show("showS", Ty::Str, n, &|e| e));
    items.push(show("showU", Ty::Unit, n, &|e| bi("unit_to_string", vec![e])));
    items.push(show("show8", Ty::Int(IntKind::I8), n, &|e| bi("int8_to_string", vec![e])));
    items.push(show("showP", tuple_ib(), n, &|e| {
        add(
            add(add(add(s("("), i2s(E::Proj(Box::new(e.clone()), 0))), s(",")), bi("bool_to_string", vec![E::Proj(Box::new(e), 1)])),
            s(")"),
        )
    }));
    items
}
