//! Reference semantics of µgoml: big-step, call-by-value, strict left-to-right,
//! first-match patterns, closures capture by value, `Ref` cells shared,
//! fixed-width wrap-around integers, type-passing generics.

use super::ast::*;
use crate::gosem::fmt as gofmt;
use std::collections::HashMap;
use std::sync::{Arc, Mutex};

#[derive(Debug, Clone)]
pub enum Val {
    Unit,
    Bool(bool),
    Int(IntKind, i128),
    F32(f32),
    F64(f64),
    Str(Arc<Vec<u8>>),
    Tuple(Vec<Val>),
    Array(Vec<Val>),
    Vec(Vec<Val>),
    Ref(Arc<Mutex<Val>>),
    Struct(Arc<str>, Vec<Val>),
    Enum(Arc<str>, usize, Vec<Val>),
    Closure(Arc<ClosureV>),
    FnRef(Arc<str>, Vec<Ty>),
    Dyn(Arc<str>, Ty, Box<Val>),
}

#[derive(Debug)]
pub struct ClosureV {
    pub params: Vec<VarId>,
    pub body: E,
    pub env: Vec<(VarId, Val)>,
    pub tsubst: Vec<(String, Ty)>,
}

#[derive(Debug, Clone, PartialEq, Eq, Hash)]
pub enum Trap {
    DivZero,
    Index,
    Missing,
}

#[derive(Debug, Clone, PartialEq, Eq, Hash)]
pub enum End {
    Ok,
    Trap(Trap),
    Fuel,
    Unsupported(String),
}

#[derive(Debug, Clone, PartialEq, Eq, Hash)]
pub struct RunResult {
    pub stdout: Vec<u8>,
    pub end: End,
    pub steps: u64,
}

pub enum Stop {
    Trap(Trap),
    Fuel,
    Unsupported(String),
    Killed,
}

type R<T> = Result<T, Stop>;

fn unsup<T>(s: impl Into<String>) -> R<T> {
    Err(Stop::Unsupported(s.into()))
}

#[derive(Debug, Clone, Copy, PartialEq, Eq)]
pub enum YieldKind {
    SharedOp,
    BackEdge,
}

pub trait Host: Send {
    fn yield_point(&mut self, ev: &mut Eval, kind: YieldKind) -> R<()>;
    fn spawn(&mut self, ev: &mut Eval, closure: Val) -> R<()>;
}

pub struct Index {
    pub fns: HashMap<String, FnDef>,
    pub structs: HashMap<String, StructDef>,
    pub enums: HashMap<String, EnumDef>,
    pub impls: Vec<ImplDef>,
}

impl Index {
    pub fn new(p: &Program) -> Index {
        let mut ix = Index {
            fns: HashMap::new(),
            structs: HashMap::new(),
            enums: HashMap::new(),
            impls: Vec::new(),
        };
        for it in p.items() {
            match it {
                Item::Fn(f) => {
                    ix.fns.insert(f.name.clone(), f.clone());
                }
                Item::Struct(s) => {
                    ix.structs.insert(s.name.clone(), s.clone());
                }
                Item::Enum(e) => {
                    ix.enums.insert(e.name.clone(), e.clone());
                }
                Item::Impl(i) => ix.impls.push(i.clone()),
                _ => {}
            }
        }
        ix
    }
}

pub struct Eval {
    pub ix: Arc<Index>,
    pub out: Arc<Mutex<Vec<u8>>>,
    pub fuel: u64,
    pub steps: u64,
    pub depth: u32,
    pub host: Option<Box<dyn Host>>,
}

struct Frame {
    env: Vec<(VarId, Val)>,
    tsubst: Vec<(String, Ty)>,
}

impl Frame {
    fn get(&self, v: VarId) -> Option<&Val> {
        self.env.iter().rev().find(|(k, _)| *k == v).map(|(_, x)| x)
    }
}

/// unify a (possibly generic) type pattern against a concrete type
fn unify(pat: &Ty, conc: &Ty, generics: &[String], out: &mut Vec<(String, Ty)>) -> bool {
    match (pat, conc) {
        (Ty::Param(p), c) if generics.contains(p) => {
            if let Some((_, t)) = out.iter().find(|(n, _)| n == p) {
                t == c
            } else {
                out.push((p.clone(), c.clone()));
                true
            }
        }
        (Ty::Tuple(a), Ty::Tuple(b)) => a.len() == b.len() && a.iter().zip(b).all(|(x, y)| unify(x, y, generics, out)),
        (Ty::Array(n, a), Ty::Array(m, b)) => n == m && unify(a, b, generics, out),
        (Ty::Vec(a), Ty::Vec(b)) | (Ty::Ref(a), Ty::Ref(b)) => unify(a, b, generics, out),
        (Ty::Fn(pa, ra), Ty::Fn(pb, rb)) => {
            pa.len() == pb.len() && pa.iter().zip(pb).all(|(x, y)| unify(x, y, generics, out)) && unify(ra, rb, generics, out)
        }
        (Ty::Named(n, a), Ty::Named(m, b)) => n == m && a.len() == b.len() && a.iter().zip(b).all(|(x, y)| unify(x, y, generics, out)),
        (a, b) => a == b,
    }
}

pub fn val_eq(a: &Val, b: &Val) -> Option<bool> {
    Some(match (a, b) {
        (Val::Unit, Val::Unit) => true,
        (Val::Bool(x), Val::Bool(y)) => x == y,
        (Val::Int(_, x), Val::Int(_, y)) => x == y,
        (Val::F32(x), Val::F32(y)) => x == y,
        (Val::F64(x), Val::F64(y)) => x == y,
        (Val::Str(x), Val::Str(y)) => x == y,
        (Val::Tuple(x), Val::Tuple(y)) | (Val::Array(x), Val::Array(y)) => {
            for (p, q) in x.iter().zip(y) {
                if !val_eq(p, q)? {
                    return Some(false);
                }
            }
            true
        }
        (Val::Struct(_, x), Val::Struct(_, y)) => {
            for (p, q) in x.iter().zip(y) {
                if !val_eq(p, q)? {
                    return Some(false);
                }
            }
            true
        }
        (Val::Enum(_, i, x), Val::Enum(_, j, y)) => {
            if i != j {
                return Some(false);
            }
            for (p, q) in x.iter().zip(y) {
                if !val_eq(p, q)? {
                    return Some(false);
                }
            }
            true
        }
        _ => return None,
    })
}

pub fn json_quote(s: &[u8]) -> Vec<u8> {
    let mut o = vec![b'"'];
    for c in String::from_utf8_lossy(s).chars() {
        match c {
            '"' => o.extend_from_slice(b"\\\""),
            '\\' => o.extend_from_slice(b"\\\\"),
            '\n' => o.extend_from_slice(b"\\n"),
            '\r' => o.extend_from_slice(b"\\r"),
            '\t' => o.extend_from_slice(b"\\t"),
            c if (c as u32) < 0x20 => o.extend_from_slice(format!("\\u{:04x}", c as u32).as_bytes()),
            c => {
                let mut b = [0u8; 4];
                o.extend_from_slice(c.encode_utf8(&mut b).as_bytes());
            }
        }
    }
    o.push(b'"');
    o
}

impl Eval {
    pub fn new(ix: Arc<Index>, fuel: u64) -> Eval {
        Eval {
            ix,
            out: Arc::new(Mutex::new(Vec::new())),
            fuel,
            steps: 0,
            depth: 0,
            host: None,
        }
    }

    fn tick(&mut self) -> R<()> {
        self.steps += 1;
        if self.steps > self.fuel {
            return Err(Stop::Fuel);
        }
        Ok(())
    }

    fn yield_point(&mut self, kind: YieldKind) -> R<()> {
        if let Some(mut h) = self.host.take() {
            let r = h.yield_point(self, kind);
            self.host = Some(h);
            r
        } else {
            Ok(())
        }
    }

    pub fn call_fn(&mut self, name: &str, targs: &[Ty], args: Vec<Val>) -> R<Val> {
        let ix = self.ix.clone();
        let Some(f) = ix.fns.get(name) else { return unsup(format!("unknown fn {}", name)) };
        let tsubst: Vec<(String, Ty)> = f.generics.iter().cloned().zip(targs.iter().cloned()).collect();
        if f.generics.len() != targs.len() {
            return unsup(format!("fn {} called with {} type args, wants {}", name, targs.len(), f.generics.len()));
        }
        self.call_def(f, tsubst, args)
    }

    fn call_def(&mut self, f: &FnDef, tsubst: Vec<(String, Ty)>, args: Vec<Val>) -> R<Val> {
        self.tick()?;
        self.depth += 1;
        if self.depth > 400 {
            self.depth -= 1;
            return unsup("reference call depth > 400");
        }
        if f.params.len() != args.len() {
            self.depth -= 1;
            return unsup("arity mismatch in reference call");
        }
        let mut fr = Frame {
            env: f.params.iter().map(|(v, _)| *v).zip(args).collect(),
            tsubst,
        };
        let r = self.eval(&f.body, &mut fr);
        self.depth -= 1;
        r
    }

    pub fn apply(&mut self, f: Val, args: Vec<Val>) -> R<Val> {
        match f {
            Val::Closure(c) => {
                self.tick()?;
                self.depth += 1;
                if self.depth > 400 {
                    self.depth -= 1;
                    return unsup("reference call depth > 400");
                }
                if c.params.len() != args.len() {
                    self.depth -= 1;
                    return unsup("closure arity mismatch");
                }
                let mut env = c.env.clone();
                env.extend(c.params.iter().cloned().zip(args));
                let mut fr = Frame {
                    env,
                    tsubst: c.tsubst.clone(),
                };
                let r = self.eval(&c.body, &mut fr);
                self.depth -= 1;
                r
            }
            Val::FnRef(n, targs) => self.call_fn(&n, &targs, args),
            _ => unsup("call of non-function"),
        }
    }

    fn find_impl(&self, trait_name: Option<&str>, ty: &Ty, method: &str) -> Option<(FnDef, Vec<(String, Ty)>)> {
        for im in &self.ix.impls {
            if im.trait_name.as_deref() != trait_name {
                continue;
            }
            let mut s = Vec::new();
            if unify(&im.for_ty, ty, &im.generics, &mut s) {
                if let Some(m) = im.methods.iter().find(|m| m.name == method) {
                    return Some((m.clone(), s));
                }
            }
        }
        None
    }

    fn bind(&mut self, p: &Pat, v: &Val, env: &mut Vec<(VarId, Val)>) -> R<bool> {
        Ok(match (p, v) {
            (Pat::Wild, _) => true,
            (Pat::Var(x), v) => {
                env.push((*x, v.clone()));
                true
            }
            (Pat::Unit, _) => true,
            (Pat::Bool(b), Val::Bool(c)) => b == c,
            (Pat::Int(i, _, _), Val::Int(_, j)) => i == j,
            (Pat::Str(s), Val::Str(t)) => s.as_bytes() == &t[..],
            (Pat::Tuple(ps), Val::Tuple(vs)) => {
                // all sub-patterns are tried left to right; binding order is irrelevant (ids unique)
                for (p, v) in ps.iter().zip(vs) {
                    if !self.bind(p, v, env)? {
                        return Ok(false);
                    }
                }
                true
            }
            (Pat::Ctor(en, vn, _, ps), Val::Enum(_, idx, vs)) => {
                let ix = self.ix.clone();
                let Some(ed) = ix.enums.get(en) else { return unsup(format!("unknown enum {}", en)) };
                let Some(want) = ed.variants.iter().position(|(n, _)| n == vn) else {
                    return unsup(format!("unknown variant {}", vn));
                };
                if want != *idx {
                    return Ok(false);
                }
                for (p, v) in ps.iter().zip(vs) {
                    if !self.bind(p, v, env)? {
                        return Ok(false);
                    }
                }
                true
            }
            (Pat::Struct(sn, fps), Val::Struct(_, vs)) => {
                let ix = self.ix.clone();
                let Some(sd) = ix.structs.get(sn) else { return unsup(format!("unknown struct {}", sn)) };
                for (f, p) in fps {
                    let Some(i) = sd.fields.iter().position(|(n, _)| n == f) else { return unsup("unknown field in pattern") };
                    if !self.bind(p, &vs[i], env)? {
                        return Ok(false);
                    }
                }
                true
            }
            (p, v) => return unsup(format!("pattern/value shape mismatch {:?} vs {:?}", p, v)),
        })
    }

    fn eval_block(&mut self, stmts: &[Stmt], tail: Option<&E>, fr: &mut Frame) -> R<Val> {
        let mark = fr.env.len();
        let mut result = Val::Unit;
        let r: R<()> = (|| {
            for s in stmts {
                self.tick()?;
                match s {
                    Stmt::Let(p, _, e) => {
                        let v = self.eval(e, fr)?;
                        let mut add = Vec::new();
                        if !self.bind(p, &v, &mut add)? {
                            return Err(Stop::Trap(Trap::Missing));
                        }
                        fr.env.extend(add);
                    }
                    Stmt::Expr(e) => {
                        self.eval(e, fr)?;
                    }
                }
            }
            if let Some(t) = tail {
                result = self.eval(t, fr)?;
            }
            Ok(())
        })();
        fr.env.truncate(mark);
        r?;
        Ok(result)
    }

    fn eval(&mut self, e: &E, fr: &mut Frame) -> R<Val> {
        Ok(match e {
            E::Unit => Val::Unit,
            E::Bool(b) => Val::Bool(*b),
            E::Int(v, k, _) => Val::Int(*k, *v),
            E::Float(s, is32, _) => {
                if *is32 {
                    Val::F32(s.parse::<f32>().map_err(|_| Stop::Unsupported("bad float".into()))?)
                } else {
                    Val::F64(s.parse::<f64>().map_err(|_| Stop::Unsupported("bad float".into()))?)
                }
            }
            E::Str(s) => Val::Str(Arc::new(s.as_bytes().to_vec())),
            E::Var(v) => match fr.get(*v) {
                Some(x) => x.clone(),
                None => return unsup(format!("unbound binder {}", v)),
            },
            E::FnRef(n, targs) => Val::FnRef(Arc::from(n.as_str()), targs.iter().map(|t| t.subst(&fr.tsubst)).collect()),
            E::Paren(inner) => self.eval(inner, fr)?,
            E::Call(f, args) => {
                let fv = self.eval(f, fr)?;
                let mut avs = Vec::new();
                for a in args {
                    avs.push(self.eval(a, fr)?);
                }
                self.apply(fv, avs)?
            }
            E::Builtin(n, args) => {
                let mut avs = Vec::new();
                for a in args {
                    avs.push(self.eval(a, fr)?);
                }
                self.builtin(n, avs)?
            }
            E::Inherent(tn, m, _, args, targs) => {
                let mut avs = Vec::new();
                for a in args {
                    avs.push(self.eval(a, fr)?);
                }
                let ty = match tn.as_str() {
                    "int32" => Ty::i32(),
                    "string" => Ty::Str,
                    "bool" => Ty::Bool,
                    "unit" => Ty::Unit,
                    "float64" => Ty::F64,
                    "float32" => Ty::F32,
                    "int8" => Ty::Int(IntKind::I8),
                    "int16" => Ty::Int(IntKind::I16),
                    "int64" => Ty::Int(IntKind::I64),
                    "uint8" => Ty::Int(IntKind::U8),
                    "uint16" => Ty::Int(IntKind::U16),
                    "uint32" => Ty::Int(IntKind::U32),
                    "uint64" => Ty::Int(IntKind::U64),
                    _ => Ty::Named(tn.clone(), targs.iter().map(|t| t.subst(&fr.tsubst)).collect()),
                };
                if tn == "int32" && m == "to_string" && self.find_impl(None, &ty, m).is_none() {
                    return self.builtin("int32_to_string", avs);
                }
                match self.find_impl(None, &ty, m) {
                    Some((f, s)) => self.call_def(&f, s, avs)?,
                    None => {
                        if m == "to_string" || m == "to_json" {
                            let v = &avs[0];
                            let s = if m == "to_string" { self.derived_to_string(v)? } else { self.derived_to_json(v)? };
                            Val::Str(Arc::new(s))
                        } else {
                            return unsup(format!("no inherent method {}::{}", tn, m));
                        }
                    }
                }
            }
            E::TraitCall(tr, m, _, args, recv_ty) => {
                let mut avs = Vec::new();
                for a in args {
                    avs.push(self.eval(a, fr)?);
                }
                let rt = recv_ty.subst(&fr.tsubst);
                let (conc, recv_unboxed) = match (&rt, &avs[0]) {
                    (Ty::Dyn(_), Val::Dyn(_, t, inner)) => (t.clone(), Some((**inner).clone())),
                    (Ty::Dyn(_), _) => return unsup("dyn receiver is not a dyn value"),
                    _ => (rt.clone(), None),
                };
                if let Some(u) = recv_unboxed {
                    avs[0] = u;
                }
                match self.find_impl(Some(tr), &conc, m) {
                    Some((f, s)) => self.call_def(&f, s, avs)?,
                    None => return unsup(format!("no impl of {} for {:?}", tr, conc)),
                }
            }
            E::ToDyn(tr, inner, t) => {
                let v = self.eval(inner, fr)?;
                Val::Dyn(Arc::from(tr.as_str()), t.subst(&fr.tsubst), Box::new(v))
            }
            E::Ctor(en, vn, _, args, _) => {
                let mut avs = Vec::new();
                for a in args {
                    avs.push(self.eval(a, fr)?);
                }
                let ix = self.ix.clone();
                let Some(ed) = ix.enums.get(en) else { return unsup(format!("unknown enum {}", en)) };
                let Some(idx) = ed.variants.iter().position(|(n, _)| n == vn) else { return unsup("unknown variant") };
                Val::Enum(Arc::from(en.as_str()), idx, avs)
            }
            E::StructLit(sn, fs, _) => {
                let ix = self.ix.clone();
                let Some(sd) = ix.structs.get(sn) else { return unsup(format!("unknown struct {}", sn)) };
                let mut vals: Vec<Option<Val>> = vec![None; sd.fields.len()];
                for (f, ve) in fs {
                    let v = self.eval(ve, fr)?;
                    let Some(i) = sd.fields.iter().position(|(n, _)| n == f) else { return unsup("unknown field") };
                    vals[i] = Some(v);
                }
                let mut out = Vec::new();
                for v in vals {
                    match v {
                        Some(v) => out.push(v),
                        None => return unsup("missing field in struct literal"),
                    }
                }
                Val::Struct(Arc::from(sn.as_str()), out)
            }
            E::Tuple(items) => {
                let mut vs = Vec::new();
                for i in items {
                    vs.push(self.eval(i, fr)?);
                }
                Val::Tuple(vs)
            }
            E::Array(items) => {
                let mut vs = Vec::new();
                for i in items {
                    vs.push(self.eval(i, fr)?);
                }
                Val::Array(vs)
            }
            E::Block(stmts, tail) => self.eval_block(stmts, tail.as_deref(), fr)?,
            E::Closure(params, body) => Val::Closure(Arc::new(ClosureV {
                params: params.iter().map(|(v, _)| *v).collect(),
                body: (**body).clone(),
                env: fr.env.clone(),
                tsubst: fr.tsubst.clone(),
            })),
            E::Match(scrut, arms) => {
                let v = self.eval(scrut, fr)?;
                for (p, body) in arms {
                    let mut add = Vec::new();
                    if self.bind(p, &v, &mut add)? {
                        let mark = fr.env.len();
                        fr.env.extend(add);
                        let r = self.eval(body, fr);
                        fr.env.truncate(mark);
                        return r;
                    }
                }
                return Err(Stop::Trap(Trap::Missing));
            }
            E::If(c, t, f) => {
                let Val::Bool(b) = self.eval(c, fr)? else { return unsup("non-bool condition") };
                if b { self.eval(t, fr)? } else { self.eval(f, fr)? }
            }
            E::While(c, b) => {
                loop {
                    self.tick()?;
                    let Val::Bool(go_on) = self.eval(c, fr)? else { return unsup("non-bool while condition") };
                    if !go_on {
                        break;
                    }
                    self.eval(b, fr)?;
                    self.yield_point(YieldKind::BackEdge)?;
                }
                Val::Unit
            }
            E::Go(c) => {
                let cv = self.eval(c, fr)?;
                if let Some(mut h) = self.host.take() {
                    let r = h.spawn(self, cv);
                    self.host = Some(h);
                    r?;
                } else {
                    return unsup("go without host");
                }
                Val::Unit
            }
            E::Unary(op, inner) => match (op, self.eval(inner, fr)?) {
                (UnOp::Neg, Val::Int(k, v)) => Val::Int(k, k.wrap(-v)),
                (UnOp::Neg, Val::F32(f)) => Val::F32(-f),
                (UnOp::Neg, Val::F64(f)) => Val::F64(-f),
                (UnOp::Not, Val::Bool(b)) => Val::Bool(!b),
                _ => return unsup("unary operator outside its domain"),
            },
            E::Binary(op, l, r) => {
                if *op == BinOp::And || *op == BinOp::Or {
                    let Val::Bool(a) = self.eval(l, fr)? else { return unsup("&&/|| on non-bool") };
                    if (*op == BinOp::And && !a) || (*op == BinOp::Or && a) {
                        return Ok(Val::Bool(a));
                    }
                    let Val::Bool(b) = self.eval(r, fr)? else { return unsup("&&/|| on non-bool") };
                    return Ok(Val::Bool(b));
                }
                let a = self.eval(l, fr)?;
                let b = self.eval(r, fr)?;
                binop(*op, a, b)?
            }
            E::Proj(t, i) => match self.eval(t, fr)? {
                Val::Tuple(mut vs) if *i < vs.len() => vs.swap_remove(*i),
                _ => return unsup("projection on non-tuple"),
            },
            E::Field(o, f) => match self.eval(o, fr)? {
                Val::Struct(sn, mut vs) => {
                    let ix = self.ix.clone();
                    let Some(sd) = ix.structs.get(&*sn) else { return unsup("unknown struct") };
                    let Some(i) = sd.fields.iter().position(|(n, _)| n == f) else { return unsup("unknown field") };
                    vs.swap_remove(i)
                }
                _ => return unsup("field access on non-struct"),
            },
        })
    }

    fn print(&mut self, s: &[u8], nl: bool) -> R<()> {
        self.yield_point(YieldKind::SharedOp)?;
        let mut o = self.out.lock().unwrap();
        o.extend_from_slice(s);
        if nl {
            o.push(b'\n');
        }
        Ok(())
    }

    pub fn builtin(&mut self, n: &str, mut a: Vec<Val>) -> R<Val> {
        let s = |v: Vec<u8>| Val::Str(Arc::new(v));
        Ok(match (n, a.as_mut_slice()) {
            ("string_print", [Val::Str(x)]) => {
                let x = x.clone();
                self.print(&x, false)?;
                Val::Unit
            }
            ("string_println", [Val::Str(x)]) => {
                let x = x.clone();
                self.print(&x, true)?;
                Val::Unit
            }
            ("unit_to_string", [_]) => s(b"()".to_vec()),
            ("bool_to_string", [Val::Bool(b)]) | ("bool_to_json", [Val::Bool(b)]) => s(b.to_string().into_bytes()),
            ("json_escape_string", [Val::Str(x)]) => s(json_quote(x)),
            ("string_len", [Val::Str(x)]) => Val::Int(IntKind::I32, IntKind::I32.wrap(x.len() as i128)),
            ("string_get", [Val::Str(x), Val::Int(_, i)]) => {
                if *i < 0 || *i as usize >= x.len() {
                    return Err(Stop::Trap(Trap::Index));
                }
                let c = char::from(x[*i as usize]);
                s(c.to_string().into_bytes())
            }
            (
                "int8_to_string" | "int16_to_string" | "int32_to_string" | "int64_to_string" | "uint8_to_string" | "uint16_to_string"
                | "uint32_to_string" | "uint64_to_string",
                [Val::Int(_, v)],
            ) => s(v.to_string().into_bytes()),
            ("float32_to_string", [Val::F32(f)]) => s(gofmt::format_f32_v(*f).into_bytes()),
            ("float64_to_string", [Val::F64(f)]) => s(gofmt::format_f64_v(*f).into_bytes()),
            ("ref", [v]) => Val::Ref(Arc::new(Mutex::new(v.clone()))),
            ("ref_get", [Val::Ref(r)]) => {
                let r = r.clone();
                self.yield_point(YieldKind::SharedOp)?;
                let g = r.lock().unwrap();
                g.clone()
            }
            ("ref_set", [Val::Ref(r), v]) => {
                let r = r.clone();
                let v = v.clone();
                self.yield_point(YieldKind::SharedOp)?;
                *r.lock().unwrap() = v;
                Val::Unit
            }
            ("vec_new", []) => Val::Vec(Vec::new()),
            ("vec_push", [Val::Vec(v), x]) => {
                let mut nv = v.clone();
                nv.push(x.clone());
                Val::Vec(nv)
            }
            ("vec_get", [Val::Vec(v), Val::Int(_, i)]) => {
                if *i < 0 || *i as usize >= v.len() {
                    return Err(Stop::Trap(Trap::Index));
                }
                v[*i as usize].clone()
            }
            ("vec_len", [Val::Vec(v)]) => Val::Int(IntKind::I32, IntKind::I32.wrap(v.len() as i128)),
            ("array_get", [Val::Array(v), Val::Int(_, i)]) => {
                if *i < 0 || *i as usize >= v.len() {
                    return Err(Stop::Trap(Trap::Index));
                }
                v[*i as usize].clone()
            }
            ("array_set", [Val::Array(v), Val::Int(_, i), x]) => {
                if *i < 0 || *i as usize >= v.len() {
                    return Err(Stop::Trap(Trap::Index));
                }
                let mut nv = v.clone();
                nv[*i as usize] = x.clone();
                Val::Array(nv)
            }
            _ => return unsup(format!("builtin {} with these arguments", n)),
        })
    }

    /// a hand-written inherent `to_string` / `to_json` of the value's type (any instance of it; the
    /// generated code calls the method, so a hand-written one takes the place of a derived one)
    fn user_render(&mut self, v: &Val, method: &str) -> R<Option<Vec<u8>>> {
        let name: &str = match v {
            Val::Struct(n, _) => n,
            Val::Enum(n, _, _) => n,
            _ => return Ok(None),
        };
        let found: Vec<FnDef> = self
            .ix
            .impls
            .iter()
            .filter(|im| im.trait_name.is_none() && matches!(&im.for_ty, Ty::Named(h, _) if h == name))
            .filter_map(|im| im.methods.iter().find(|m| m.name == method).cloned())
            .collect();
        if found.len() != 1 {
            return Ok(None);
        }
        match self.call_def(&found[0], vec![], vec![v.clone()])? {
            Val::Str(s) => Ok(Some((*s).clone())),
            _ => unsup("hand-written rendering method does not return a string"),
        }
    }

    fn leaf_to_string(&mut self, v: &Val) -> R<Vec<u8>> {
        if let Some(s) = self.user_render(v, "to_string")? {
            return Ok(s);
        }
        Ok(match v {
            Val::Unit => b"()".to_vec(),
            Val::Bool(b) => b.to_string().into_bytes(),
            Val::Int(_, i) => i.to_string().into_bytes(),
            Val::F32(f) => gofmt::format_f32_v(*f).into_bytes(),
            Val::F64(f) => gofmt::format_f64_v(*f).into_bytes(),
            Val::Str(s) => (**s).clone(),
            Val::Struct(..) | Val::Enum(..) => self.derived_to_string(v)?,
            _ => return unsup("to_string of unsupported leaf"),
        })
    }

    /// reference rendering: `Name { f: v, g: w }` / `Enum::Variant(v, w)`
    pub fn derived_to_string(&mut self, v: &Val) -> R<Vec<u8>> {
        let ix = self.ix.clone();
        match v {
            Val::Struct(n, vs) => {
                let Some(sd) = ix.structs.get(&**n) else { return unsup("unknown struct") };
                let mut o = n.as_bytes().to_vec();
                if vs.is_empty() {
                    o.extend_from_slice(b" {}");
                    return Ok(o);
                }
                o.extend_from_slice(b" { ");
                for (i, ((f, _), x)) in sd.fields.iter().zip(vs).enumerate() {
                    if i > 0 {
                        o.extend_from_slice(b", ");
                    }
                    o.extend_from_slice(f.as_bytes());
                    o.extend_from_slice(b": ");
                    o.extend(self.leaf_to_string(x)?);
                }
                o.extend_from_slice(b" }");
                Ok(o)
            }
            Val::Enum(n, idx, vs) => {
                let Some(ed) = ix.enums.get(&**n) else { return unsup("unknown enum") };
                let mut o = format!("{}::{}", n, ed.variants[*idx].0).into_bytes();
                if !vs.is_empty() {
                    o.push(b'(');
                    for (i, x) in vs.iter().enumerate() {
                        if i > 0 {
                            o.extend_from_slice(b", ");
                        }
                        o.extend(self.leaf_to_string(x)?);
                    }
                    o.push(b')');
                }
                Ok(o)
            }
            _ => unsup("derived to_string on non struct/enum"),
        }
    }

    fn leaf_to_json(&mut self, v: &Val) -> R<Vec<u8>> {
        if let Some(s) = self.user_render(v, "to_json")? {
            return Ok(s);
        }
        Ok(match v {
            Val::Unit => b"null".to_vec(),
            Val::Bool(b) => b.to_string().into_bytes(),
            Val::Int(_, i) => i.to_string().into_bytes(),
            // JSON has no NaN and no infinities: null
            Val::F32(f) if !f.is_finite() => b"null".to_vec(),
            Val::F64(f) if !f.is_finite() => b"null".to_vec(),
            Val::F32(f) => gofmt::format_f32_v(*f).into_bytes(),
            Val::F64(f) => gofmt::format_f64_v(*f).into_bytes(),
            Val::Str(s) => json_quote(s),
            Val::Struct(..) | Val::Enum(..) => self.derived_to_json(v)?,
            _ => return unsup("to_json of unsupported leaf"),
        })
    }

    /// canonical reference JSON: object per struct; {"tag":…,"fields":[…]} per variant
    pub fn derived_to_json(&mut self, v: &Val) -> R<Vec<u8>> {
        let ix = self.ix.clone();
        match v {
            Val::Struct(n, vs) => {
                let Some(sd) = ix.structs.get(&**n) else { return unsup("unknown struct") };
                let mut o = b"{".to_vec();
                for (i, ((f, _), x)) in sd.fields.iter().zip(vs).enumerate() {
                    if i > 0 {
                        o.push(b',');
                    }
                    o.extend(json_quote(f.as_bytes()));
                    o.push(b':');
                    o.extend(self.leaf_to_json(x)?);
                }
                o.push(b'}');
                Ok(o)
            }
            Val::Enum(n, idx, vs) => {
                let Some(ed) = ix.enums.get(&**n) else { return unsup("unknown enum") };
                let mut o = b"{\"tag\":".to_vec();
                o.extend(json_quote(ed.variants[*idx].0.as_bytes()));
                if !vs.is_empty() {
                    o.extend_from_slice(b",\"fields\":[");
                    for (i, x) in vs.iter().enumerate() {
                        if i > 0 {
                            o.push(b',');
                        }
                        o.extend(self.leaf_to_json(x)?);
                    }
                    o.push(b']');
                }
                o.push(b'}');
                Ok(o)
            }
            _ => unsup("derived to_json on non struct/enum"),
        }
    }
}

fn binop(op: BinOp, a: Val, b: Val) -> R<Val> {
    use BinOp::*;
    Ok(match (a, b) {
        (Val::Int(k, x), Val::Int(_, y)) => match op {
            Add => Val::Int(k, k.wrap(x + y)),
            Sub => Val::Int(k, k.wrap(x - y)),
            Mul => Val::Int(k, k.wrap(x * y)),
            Div => {
                if y == 0 {
                    return Err(Stop::Trap(Trap::DivZero));
                }
                Val::Int(k, k.wrap(x / y))
            }
            Lt => Val::Bool(x < y),
            Le => Val::Bool(x <= y),
            Gt => Val::Bool(x > y),
            Ge => Val::Bool(x >= y),
            Eq => Val::Bool(x == y),
            Ne => Val::Bool(x != y),
            And | Or => return unsup("logic on ints"),
        },
        (Val::F32(x), Val::F32(y)) => match op {
            Add => Val::F32(x + y),
            Sub => Val::F32(x - y),
            Mul => Val::F32(x * y),
            Div => Val::F32(x / y),
            Lt => Val::Bool(x < y),
            Le => Val::Bool(x <= y),
            Gt => Val::Bool(x > y),
            Ge => Val::Bool(x >= y),
            Eq => Val::Bool(x == y),
            Ne => Val::Bool(x != y),
            _ => return unsup("float op"),
        },
        (Val::F64(x), Val::F64(y)) => match op {
            Add => Val::F64(x + y),
            Sub => Val::F64(x - y),
            Mul => Val::F64(x * y),
            Div => Val::F64(x / y),
            Lt => Val::Bool(x < y),
            Le => Val::Bool(x <= y),
            Gt => Val::Bool(x > y),
            Ge => Val::Bool(x >= y),
            Eq => Val::Bool(x == y),
            Ne => Val::Bool(x != y),
            _ => return unsup("float op"),
        },
        (Val::Str(x), Val::Str(y)) => match op {
            Add => {
                let mut v = (*x).clone();
                v.extend_from_slice(&y);
                Val::Str(Arc::new(v))
            }
            Lt => Val::Bool(x < y),
            Le => Val::Bool(x <= y),
            Gt => Val::Bool(x > y),
            Ge => Val::Bool(x >= y),
            Eq => Val::Bool(x == y),
            Ne => Val::Bool(x != y),
            _ => return unsup("string op"),
        },
        (a, b) => match op {
            Eq | Ne => match val_eq(&a, &b) {
                Some(r) => Val::Bool(if op == Eq { r } else { !r }),
                None => return unsup("equality outside its domain"),
            },
            _ => return unsup("operator outside its domain"),
        },
    })
}

/// sequential host: same policy as gosem::run::SeqHost
pub struct SeqHost {
    pending: Vec<Val>,
}

impl SeqHost {
    pub fn new() -> SeqHost {
        SeqHost { pending: Vec::new() }
    }
}

impl Host for SeqHost {
    fn yield_point(&mut self, ev: &mut Eval, kind: YieldKind) -> R<()> {
        if kind == YieldKind::BackEdge && !self.pending.is_empty() {
            let c = self.pending.remove(0);
            let d = ev.depth;
            ev.depth = 0;
            let r = ev.apply(c, vec![]);
            ev.depth = d;
            r?;
        }
        Ok(())
    }
    fn spawn(&mut self, _ev: &mut Eval, closure: Val) -> R<()> {
        self.pending.push(closure);
        Ok(())
    }
}

pub fn run_program(p: &Program, fuel: u64) -> RunResult {
    let ix = Arc::new(Index::new(p));
    let mut ev = Eval::new(ix, fuel);
    ev.host = Some(Box::new(SeqHost::new()));
    let r = ev.call_fn("main", &[], vec![]);
    let end = match r {
        Ok(_) => End::Ok,
        Err(Stop::Trap(t)) => End::Trap(t),
        Err(Stop::Fuel) => End::Fuel,
        Err(Stop::Unsupported(s)) => End::Unsupported(s),
        Err(Stop::Killed) => End::Ok,
    };
    let stdout = ev.out.lock().unwrap().clone();
    RunResult {
        stdout,
        end,
        steps: ev.steps,
    }
}
