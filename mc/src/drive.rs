//! Execution discipline: families of enumerated cases, sub-process workers
//! with crash/hang attribution, fingerprints, known findings, evidence.

use serde_json::{Value, json};
use std::collections::{BTreeMap, BTreeSet, HashMap};
use std::io::{BufRead, BufReader, Write};
use std::process::{Command, Stdio};
use std::sync::mpsc;
use std::time::{Duration, Instant};

#[derive(Debug, Clone, Copy, PartialEq, Eq)]
pub enum Tier {
    Quick,
    Thorough,
}

impl Tier {
    pub fn name(self) -> &'static str {
        match self {
            Tier::Quick => "quick",
            Tier::Thorough => "thorough",
        }
    }
    pub fn parse(s: &str) -> Tier {
        if s == "thorough" { Tier::Thorough } else { Tier::Quick }
    }
}

#[derive(Debug, Clone)]
pub struct Finding {
    pub property: &'static str,
    /// oracle rule id, e.g. `go.assign`, `sem.output-differs`, `panic`
    pub class: String,
    /// normalised description of where in the construct lattice it happened
    pub site: String,
    pub detail: String,
    /// everything needed to re-run this case without the explorer
    pub replay: Value,
}

#[derive(Debug, Default)]
pub struct Report {
    /// counters (tag → +1) for evidence / non-vacuity
    pub tags: Vec<String>,
    pub findings: Vec<Finding>,
    /// distinct-and-nontrivial key: Some(k) if this case is non-trivial by the family's rule
    pub nontrivial_key: Option<String>,
    /// observed outcome key (to count distinct outcomes)
    pub outcome: Option<String>,
    /// states/transitions for explicit-state families
    pub states: u64,
    pub transitions: u64,
    pub sample: Option<Value>,
    /// families whose case is a block of many inputs: number of inputs evaluated in this case
    pub sub_evaluations: u64,
    /// … and the (hashed) distinct-non-trivial keys of those inputs
    pub more_keys: Vec<u64>,
}

impl Report {
    pub fn tag(&mut self, t: impl Into<String>) {
        self.tags.push(t.into());
    }
}

pub struct Ctx {
    pub scratch: crate::oracle::Scratch,
    pub tier: Tier,
}

pub trait Family: Sync + Send {
    fn name(&self) -> &'static str;
    fn serves(&self) -> &'static [&'static str];
    /// what is enumerated and what makes a case non-trivial (goes into evidence `rule`)
    fn rule(&self) -> &'static str;
    /// number of cases in this tier (cases are addressed by index, generated deterministically)
    fn cases(&self, tier: Tier) -> Box<dyn Iterator<Item = Value> + '_>;
    fn run(&self, case: &Value, ctx: &mut Ctx) -> Report;
    /// per-case wall cap in seconds
    fn case_timeout(&self, tier: Tier) -> u64 {
        match tier {
            // cases take milliseconds; the caps are for a hang, with room for a heavily loaded machine
            Tier::Quick => 30,
            Tier::Thorough => 60,
        }
    }
    fn workers(&self) -> usize {
        16
    }
    /// level for evidence
    fn level(&self) -> &'static str {
        "exploration"
    }
    /// properties for which a crashed / hung worker is a violation
    fn crash_properties(&self) -> &'static [&'static str] {
        &["C04"]
    }
    /// address-space limit of a worker process in bytes: a compiler that needs more for one case
    /// aborts (allocation failure), the worker dies and the death is attributed to the case
    fn worker_address_space_limit(&self) -> Option<u64> {
        None
    }
}

#[repr(C)]
struct RLimit {
    cur: u64,
    max: u64,
}
unsafe extern "C" {
    fn setrlimit(resource: i32, rlim: *const RLimit) -> i32;
}
const RLIMIT_AS: i32 = 9;

// ------------------------------------------------------------------ worker side

fn finding_json(f: &Finding) -> Value {
    json!({"property": f.property, "class": f.class, "site": f.site, "detail": f.detail, "replay": f.replay})
}

#[derive(Default)]
struct Agg {
    evaluations: u64,
    tags: BTreeMap<String, u64>,
    nontrivial: BTreeSet<String>,
    outcomes: BTreeSet<String>,
    states: u64,
    transitions: u64,
    samples: Vec<Value>,
}

impl Agg {
    fn to_json(&self) -> Value {
        json!({
            "evaluations": self.evaluations,
            "tags": self.tags,
            "nontrivial": self.nontrivial.iter().collect::<Vec<_>>(),
            "outcomes": self.outcomes.iter().collect::<Vec<_>>(),
            "states": self.states,
            "transitions": self.transitions,
            "samples": self.samples,
        })
    }
}

fn short_hash(s: &str) -> String {
    // FNV-1a 64
    let mut h: u64 = 0xcbf29ce484222325;
    for b in s.as_bytes() {
        h ^= *b as u64;
        h = h.wrapping_mul(0x100000001b3);
    }
    format!("{:016x}", h)
}

pub fn worker_main(fam: &dyn Family, tier: Tier, w: usize, k: usize, from: usize, skip: &[usize]) {
    let stdout = std::io::stdout();
    let mut out = stdout.lock();
    let mut ctx = Ctx {
        scratch: crate::oracle::Scratch::new(&format!("{}-{}", fam.name(), w)),
        tier,
    };
    // queries and `compile` resolve relative paths against the working directory: make it an empty one
    let _ = std::env::set_current_dir(&ctx.scratch.empty);
    // silence the default panic hook (panics are caught and reported as findings)
    std::panic::set_hook(Box::new(|_| {}));
    if let Some(bytes) = fam.worker_address_space_limit() {
        let lim = RLimit { cur: bytes, max: bytes };
        if unsafe { setrlimit(RLIMIT_AS, &lim) } != 0 {
            eprintln!("machinery: setrlimit(RLIMIT_AS) failed");
            std::process::exit(3);
        }
    }
    let mut agg = Agg::default();
    let mut since = 0u64;
    let mut last_idx = from;
    for (idx, case) in fam.cases(tier).enumerate() {
        if idx < from || idx % k != w || skip.contains(&idx) {
            continue;
        }
        let _ = writeln!(out, "B {}", idx);
        let _ = out.flush();
        let mut rep = fam.run(&case, &mut ctx);
        // a compiler panic on a program of a family is also a failure of what the family is about:
        // report it under the family's own property, not only under C04
        let own = fam.serves()[0];
        let extra: Vec<Finding> = rep
            .findings
            .iter()
            .filter(|f| f.class.starts_with("compile.panic") && f.property == "C04" && own != "C04")
            .filter(|f| !rep.findings.iter().any(|g| g.property == own && g.class == f.class && g.site == f.site))
            .map(|f| Finding { property: own, class: f.class.clone(), site: f.site.clone(), detail: f.detail.clone(), replay: f.replay.clone() })
            .collect();
        rep.findings.extend(extra);
        agg.evaluations += if rep.sub_evaluations > 0 { rep.sub_evaluations } else { 1 };
        for k in &rep.more_keys {
            agg.nontrivial.insert(format!("{:016x}", k));
        }
        for t in rep.tags {
            *agg.tags.entry(t).or_insert(0) += 1;
        }
        if let Some(kx) = rep.nontrivial_key {
            agg.nontrivial.insert(short_hash(&kx));
        }
        if let Some(o) = rep.outcome {
            agg.outcomes.insert(short_hash(&o));
        }
        agg.states += rep.states;
        agg.transitions += rep.transitions;
        if let Some(s) = rep.sample {
            if agg.samples.len() < 2 {
                agg.samples.push(s);
            }
        }
        for f in &rep.findings {
            let _ = writeln!(out, "F {} {}", idx, finding_json(f));
        }
        since += 1;
        last_idx = idx;
        if since >= 200 {
            let _ = writeln!(out, "S {} {}", idx, agg.to_json());
            agg = Agg::default();
            since = 0;
        }
    }
    let _ = writeln!(out, "S {} {}", last_idx, agg.to_json());
    let _ = writeln!(out, "E");
    let _ = out.flush();
}

// ------------------------------------------------------------------ parent side

#[derive(Default)]
pub struct FamilyResult {
    pub crash_cases: Vec<(usize, String)>,
    pub evaluations: u64,
    pub tags: BTreeMap<String, u64>,
    pub nontrivial: BTreeSet<String>,
    pub outcomes: BTreeSet<String>,
    pub states: u64,
    pub transitions: u64,
    pub samples: Vec<Value>,
    pub findings: Vec<(usize, Value)>,
    pub crashes: Vec<(usize, String)>,
    pub complete: bool,
    pub wall_s: f64,
}

enum Msg {
    Line(usize, String),
    Closed(usize, Option<i32>),
}

fn spawn_worker(exe: &str, fam: &str, tier: Tier, w: usize, k: usize, from: usize, skip: &[usize], tx: mpsc::Sender<Msg>) -> std::process::Child {
    let skip_s = skip.iter().map(|s| s.to_string()).collect::<Vec<_>>().join(",");
    // address-space cap so a runaway specialisation cannot take the sandbox down
    let cmdline = format!(
        "ulimit -v 6000000; exec {} worker {} {} {} {} {} {}",
        exe,
        fam,
        tier.name(),
        w,
        k,
        from,
        if skip_s.is_empty() { "-".to_string() } else { skip_s }
    );
    let mut child = Command::new("sh")
        .arg("-c")
        .arg(cmdline)
        .stdin(Stdio::null())
        .stdout(Stdio::piped())
        .stderr(Stdio::null())
        .spawn()
        .expect("spawn worker");
    let so = child.stdout.take().unwrap();
    std::thread::spawn(move || {
        let rd = BufReader::new(so);
        for line in rd.lines() {
            match line {
                Ok(l) => {
                    if tx.send(Msg::Line(w, l)).is_err() {
                        return;
                    }
                }
                Err(_) => break,
            }
        }
        let _ = tx.send(Msg::Closed(w, None));
    });
    child
}

struct WState {
    child: std::process::Child,
    inflight: Option<usize>,
    inflight_since: Instant,
    /// processor time the worker had used when the case in flight began
    inflight_cpu0: f64,
    checkpoint: usize,
    skip: Vec<usize>,
    done: bool,
    clean_end: bool,
    restarts: u32,
}

/// processor time (user + system, all threads) a process has used so far, from /proc/<pid>/stat
fn cpu_seconds(pid: u32) -> Option<f64> {
    let s = std::fs::read_to_string(format!("/proc/{}/stat", pid)).ok()?;
    // the command name (field 2) may contain blanks: the numeric fields follow the last ')'
    let rest = &s[s.rfind(')')? + 1..];
    let f: Vec<&str> = rest.split_whitespace().collect();
    // after the command name: state is f[0]; utime and stime are fields 14 and 15 of the line = f[11], f[12]
    let ticks: f64 = f.get(11)?.parse::<f64>().ok()? + f.get(12)?.parse::<f64>().ok()?;
    Some(ticks / 100.0)
}

pub fn run_family(fam: &dyn Family, tier: Tier, wall_cap: Duration) -> FamilyResult {
    let start = Instant::now();
    let exe = std::env::current_exe().unwrap().to_string_lossy().to_string();
    let k = fam.workers().max(1);
    let (tx, rx) = mpsc::channel::<Msg>();
    let mut ws: Vec<WState> = (0..k)
        .map(|w| WState {
            child: spawn_worker(&exe, fam.name(), tier, w, k, 0, &[], tx.clone()),
            inflight: None,
            inflight_since: Instant::now(),
            inflight_cpu0: 0.0,
            checkpoint: 0,
            skip: vec![],
            done: false,
            clean_end: false,
            restarts: 0,
        })
        .collect();
    let mut res = FamilyResult::default();
    res.complete = true;
    let case_cap = Duration::from_secs(fam.case_timeout(tier));
    loop {
        if ws.iter().all(|w| w.done) {
            break;
        }
        match rx.recv_timeout(Duration::from_millis(200)) {
            Ok(Msg::Line(w, l)) => {
                let st = &mut ws[w];
                if let Some(rest) = l.strip_prefix("B ") {
                    st.inflight = rest.trim().parse().ok();
                    st.inflight_since = Instant::now();
                    st.inflight_cpu0 = cpu_seconds(st.child.id()).unwrap_or(0.0);
                } else if let Some(rest) = l.strip_prefix("F ") {
                    if let Some((idx, js)) = rest.split_once(' ') {
                        if let (Ok(idx), Ok(v)) = (idx.parse::<usize>(), serde_json::from_str::<Value>(js)) {
                            res.findings.push((idx, v));
                        }
                    }
                } else if let Some(rest) = l.strip_prefix("S ") {
                    if let Some((idx, js)) = rest.split_once(' ') {
                        if let (Ok(idx), Ok(v)) = (idx.parse::<usize>(), serde_json::from_str::<Value>(js)) {
                            st.checkpoint = idx + 1;
                            st.inflight = None;
                            res.evaluations += v["evaluations"].as_u64().unwrap_or(0);
                            res.states += v["states"].as_u64().unwrap_or(0);
                            res.transitions += v["transitions"].as_u64().unwrap_or(0);
                            if let Some(m) = v["tags"].as_object() {
                                for (t, n) in m {
                                    *res.tags.entry(t.clone()).or_insert(0) += n.as_u64().unwrap_or(0);
                                }
                            }
                            for x in v["nontrivial"].as_array().into_iter().flatten() {
                                res.nontrivial.insert(x.as_str().unwrap_or("").to_string());
                            }
                            for x in v["outcomes"].as_array().into_iter().flatten() {
                                res.outcomes.insert(x.as_str().unwrap_or("").to_string());
                            }
                            for x in v["samples"].as_array().into_iter().flatten() {
                                if res.samples.len() < 4 {
                                    res.samples.push(x.clone());
                                }
                            }
                        }
                    }
                } else if l == "E" {
                    st.clean_end = true;
                }
            }
            Ok(Msg::Closed(w, _)) => {
                let st = &mut ws[w];
                let status = st.child.wait().ok();
                if st.clean_end {
                    st.done = true;
                } else {
                    // crashed (abort, stack overflow, OOM kill, or killed by the watchdog)
                    let idx = st.inflight.unwrap_or(st.checkpoint);
                    let how = match status {
                        Some(s) => format!("{:?}", s),
                        None => "unknown".into(),
                    };
                    res.crashes.push((idx, how));
                    st.skip.push(idx);
                    st.restarts += 1;
                    if st.restarts > 200 {
                        st.done = true;
                        res.complete = false;
                    } else {
                        // findings between checkpoint and crash may be re-emitted: dedupe later
                        st.child = spawn_worker(&exe, fam.name(), tier, w, k, st.checkpoint, &st.skip, tx.clone());
                        st.inflight = None;
                        st.inflight_since = Instant::now();
                    }
                }
            }
            Err(mpsc::RecvTimeoutError::Timeout) => {}
            Err(mpsc::RecvTimeoutError::Disconnected) => break,
        }
        // watchdog: the cap is on the processor time the case has used (a busy machine makes a case slow, not
        // divergent); a case that sits without using the processor is stopped after ten times the cap of wall time
        for st in ws.iter_mut() {
            if !st.done && st.inflight.is_some() {
                let wall = st.inflight_since.elapsed();
                let over = match cpu_seconds(st.child.id()) {
                    Some(now) => now - st.inflight_cpu0 > case_cap.as_secs_f64() || wall > case_cap * 10,
                    None => wall > case_cap,
                };
                if over {
                    let _ = st.child.kill();
                    st.inflight_since = Instant::now();
                }
            }
        }
        if start.elapsed() > wall_cap {
            for st in ws.iter_mut() {
                if !st.done {
                    let _ = st.child.kill();
                    let _ = st.child.wait();
                    st.done = true;
                }
            }
            res.complete = false;
            break;
        }
    }
    // dedupe findings (idx, class, site)
    let mut seen = BTreeSet::new();
    res.findings.retain(|(idx, v)| seen.insert((*idx, v["class"].as_str().unwrap_or("").to_string(), v["site"].as_str().unwrap_or("").to_string(), v["property"].as_str().unwrap_or("").to_string())));
    res.wall_s = start.elapsed().as_secs_f64();
    res
}

// ------------------------------------------------------------------ known findings

#[derive(Debug, Clone)]
pub struct Known {
    pub id: String,
    pub properties: Vec<String>,
    pub classes: Vec<String>,
    /// all of these substrings must occur in the site
    pub site_all: Vec<String>,
    /// none of these substrings may occur in the site (dimensions the finding was repaired for)
    pub site_none: Vec<String>,
    /// if non-empty: the site must be one of these exactly (the specific failing inputs)
    pub sites: Vec<String>,
    pub what: String,
    pub fixed: bool,
}

pub fn load_known(path: &str) -> Vec<Known> {
    let Ok(text) = std::fs::read_to_string(path) else { return vec![] };
    let Ok(v) = serde_json::from_str::<Value>(&text) else {
        eprintln!("machinery: known_findings.json does not parse");
        std::process::exit(2);
    };
    let mut out = Vec::new();
    for e in v["findings"].as_array().into_iter().flatten() {
        out.push(Known {
            id: e["id"].as_str().unwrap_or("").to_string(),
            properties: e["properties"].as_array().into_iter().flatten().filter_map(|x| x.as_str().map(|s| s.to_string())).collect(),
            classes: e["classes"].as_array().into_iter().flatten().filter_map(|x| x.as_str().map(|s| s.to_string())).chain(e["class"].as_str().map(|s| s.to_string())).collect(),
            site_all: e["site_all"].as_array().into_iter().flatten().filter_map(|x| x.as_str().map(|s| s.to_string())).collect(),
            site_none: e["site_none"].as_array().into_iter().flatten().filter_map(|x| x.as_str().map(|s| s.to_string())).collect(),
            sites: e["sites"].as_array().into_iter().flatten().filter_map(|x| x.as_str().map(|s| s.to_string())).collect(),
            what: e["what"].as_str().unwrap_or("").to_string(),
            fixed: e["status"].as_str() == Some("fixed"),
        });
    }
    out
}

pub fn match_known<'a>(known: &'a [Known], property: &str, class: &str, site: &str) -> Option<&'a Known> {
    known.iter().find(|k| !k.fixed && k.properties.iter().any(|p| p == property) && k.classes.iter().any(|c| c == class) && k.site_all.iter().all(|s| site.contains(s.as_str())) && !k.site_none.iter().any(|s| site.contains(s.as_str())) && (k.sites.is_empty() || k.sites.iter().any(|s| s == site)))
}

// ------------------------------------------------------------------ check = families for one property

pub struct CheckOutcome {
    pub violations: usize,
    pub known_hit: BTreeMap<String, (String, u64)>,
    pub machinery_error: Option<String>,
}

pub fn run_check(property: &'static str, fams: &[&dyn Family], tier: Tier, verif_root: &str, seed: i64) -> i32 {
    let start = Instant::now();
    let known = load_known(&format!("{}/known_findings.json", verif_root));
    let wall_cap = match tier {
        Tier::Quick => Duration::from_secs(240),
        Tier::Thorough => Duration::from_secs(3000),
    };
    let mut total_eval = 0u64;
    let mut nontrivial_total = 0u64;
    let mut outcomes_total = 0u64;
    let mut states = 0u64;
    let mut transitions = 0u64;
    let mut samples: Vec<Value> = Vec::new();
    let mut fam_json = Vec::new();
    // evaluations a family could not decide (its reference or the Go model lacks something): tag -> count
    let mut undecided: BTreeMap<String, u64> = BTreeMap::new();
    let mut violations: Vec<(String, String, String, Value)> = Vec::new();
    let mut known_hits: BTreeMap<String, (String, u64)> = BTreeMap::new();
    let mut exhaustive = true;
    let mut machinery_failures = 0u64;
    let mut level = "exploration";
    let mut rules = Vec::new();
    // families run concurrently (each with its own worker processes)
    let results: Vec<FamilyResult> = std::thread::scope(|sc| {
        let handles: Vec<_> = fams.iter().map(|fam| sc.spawn(move || run_family(*fam, tier, wall_cap))).collect();
        handles.into_iter().map(|h| h.join().expect("family runner thread")).collect()
    });
    for (fam, r) in fams.iter().zip(results.into_iter()) {
        // the level recorded is the one claimed for the property in MANIFEST.json: only the
        // properties whose primary family is a state-space search are "model_checking"
        if fam.level() == "model_checking" && matches!(property, "C09" | "C14" | "C15") {
            level = "model_checking";
        }
        total_eval += r.evaluations;
        nontrivial_total += r.nontrivial.len() as u64;
        outcomes_total += r.outcomes.len() as u64;
        states += r.states;
        transitions += r.transitions;
        for s in &r.samples {
            if samples.len() < 6 {
                samples.push(json!({"family": fam.name(), "case": s}));
            }
        }
        if r.samples.is_empty() {
            // a family that reports no sample of its own: write out its first cases as enumerated
            for c in fam.cases(tier).take(2) {
                if samples.len() < 6 {
                    samples.push(json!({"family": fam.name(), "case": c}));
                }
            }
        }
        if !r.complete {
            exhaustive = false;
        }
        rules.push(format!("[{}] {}", fam.name(), fam.rule()));
        let mut fam_viol = 0u64;
        let mut fam_known = 0u64;
        // crashes/hangs of the worker process are findings against C04 (never crashes or hangs)
        for (idx, how) in &r.crashes {
            let case_desc = fam.cases(tier).nth(*idx).map(|c| c.to_string()).unwrap_or_default();
            let f = json!({"property": property, "class": "worker-died", "site": format!("{};case={}", fam.name(), case_desc), "detail": how,
                "replay": {"family": fam.name(), "index": idx, "tier": tier.name()}});
            let recorded_elsewhere = fam.crash_properties().iter().any(|p| match_known(&known, p, "worker-died", f["site"].as_str().unwrap_or("")).is_some());
            if !fam.crash_properties().contains(&property) && !recorded_elsewhere {
                // not a verdict for this property: either the compiler died (reported by the C04 check) or the
                // harness did; in both cases this run did not explore the case, so it must not pass quietly
                eprintln!("machinery: worker died in family {} on case {} ({}) - not explored", fam.name(), case_desc, how);
                machinery_failures += 1;
                exhaustive = false;
            }
            if fam.crash_properties().contains(&property) {
                let site = f["site"].as_str().unwrap().to_string();
                if let Some(k) = match_known(&known, property, "worker-died", &site) {
                    let e = known_hits.entry(k.id.clone()).or_insert((k.what.clone(), 0));
                    e.1 += 1;
                    fam_known += 1;
                } else {
                    violations.push(("worker-died".into(), site, fam.name().to_string(), f));
                    fam_viol += 1;
                }
            }
        }
        for (_idx, f) in &r.findings {
            if f["property"].as_str() != Some(property) {
                continue;
            }
            let class = f["class"].as_str().unwrap_or("").to_string();
            let site = f["site"].as_str().unwrap_or("").to_string();
            if let Some(k) = match_known(&known, property, &class, &site) {
                let e = known_hits.entry(k.id.clone()).or_insert((k.what.clone(), 0));
                e.1 += 1;
                fam_known += 1;
                if let Ok(path) = std::env::var("GOMLMC_DUMP_KNOWN") {
                    use std::io::Write;
                    if let Ok(mut fh) = std::fs::OpenOptions::new().create(true).append(true).open(path) {
                        let _ = writeln!(fh, "{}", json!({"id": k.id, "property": property, "class": class, "site": site}));
                    }
                }
            } else {
                violations.push((class, site, fam.name().to_string(), f.clone()));
                fam_viol += 1;
            }
        }
        for (t, n) in r.tags.iter() {
            if t.starts_with("machinery:") {
                *undecided.entry(format!("{}/{}", fam.name(), t)).or_insert(0u64) += *n;
            }
        }
        fam_json.push(json!({
            "family": fam.name(), "evaluations": r.evaluations, "distinct_nontrivial": r.nontrivial.len(),
            "distinct_outcomes": r.outcomes.len(), "tags": r.tags, "complete": r.complete, "wall_s": r.wall_s,
            "worker_crashes": r.crashes.len(), "violations": fam_viol, "known_finding_hits": fam_known,
            "states": r.states, "transitions": r.transitions,
        }));
    }
    // report
    for (id, (what, n)) in &known_hits {
        println!("KNOWN-FINDING: property={} {} [{}; {} cases]", property, what, id, n);
    }
    // group violations by (class, site) and write one replay per group
    let mut groups: BTreeMap<(String, String), Vec<&Value>> = BTreeMap::new();
    for (c, s, _f, v) in &violations {
        groups.entry((c.clone(), s.clone())).or_default().push(v);
    }
    let replay_dir = format!("{}/replays/{}", verif_root, property);
    if !groups.is_empty() {
        let _ = std::fs::create_dir_all(&replay_dir);
    }
    let mut viol_samples = Vec::new();
    for ((c, s), vs) in &groups {
        let name = short_hash(&format!("{}|{}", c, s));
        let path = format!("{}/{}.json", replay_dir, name);
        let body = json!({"property": property, "class": c, "site": s, "count": vs.len(), "first": vs[0]});
        let _ = std::fs::write(&path, serde_json::to_string_pretty(&body).unwrap());
        println!("VIOLATION property={} replay={}", property, path);
        println!("  class={} site={} cases={} detail={}", c, s, vs.len(), vs[0]["detail"].as_str().unwrap_or("").chars().take(300).collect::<String>());
        if viol_samples.len() < 5 {
            viol_samples.push(json!({"class": c, "site": s, "cases": vs.len()}));
        }
    }
    if total_eval == 0 {
        eprintln!("machinery: no cases evaluated");
        return 2;
    }
    let wall = start.elapsed().as_secs_f64();
    let mut coverage = json!({
        "evaluations": total_eval,
        "distinct_nontrivial": nontrivial_total,
        "distinct_outcomes": outcomes_total,
        "rule": rules.join(" || "),
        "samples": samples,
        "exhaustive": exhaustive,
        "families": fam_json,
        "known_findings_hit": known_hits.iter().map(|(k, (w, n))| json!({"id": k, "what": w, "cases": n})).collect::<Vec<_>>(),
        "violation_groups": viol_samples,
    });
    if level == "model_checking" {
        coverage["states"] = json!(states.max(1));
        coverage["transitions"] = json!(transitions.max(1));
        coverage["traces_validated_against_impl"] = json!(transitions);
    }
    let ev = json!({
        "property_id": property,
        "tier": tier.name(),
        "seed": seed,
        "level": level,
        "coverage": coverage,
        "assumptions": crate::families::assumptions(property),
        "wall_s": wall,
        "violations": groups.len(),
    });
    let _ = std::fs::create_dir_all(format!("{}/evidence", verif_root));
    if let Err(e) = std::fs::write(format!("{}/evidence/{}.json", verif_root, property), serde_json::to_string_pretty(&ev).unwrap()) {
        eprintln!("machinery: cannot write evidence: {}", e);
        return 2;
    }
    println!(
        "property={} tier={} evaluations={} distinct_nontrivial={} outcomes={} known={} violations={} exhaustive={} wall={:.1}s",
        property,
        tier.name(),
        total_eval,
        nontrivial_total,
        outcomes_total,
        known_hits.len(),
        groups.len(),
        exhaustive,
        wall
    );
    // undecided evaluations are tolerated only up to what undecided_allow.json lists for this tier
    // (explained there); more than that means a generator outran its reference, i.e. silence
    let allow: Value = std::fs::read_to_string(format!("{}/undecided_allow.json", verif_root)).ok().and_then(|t| serde_json::from_str(&t).ok()).unwrap_or(json!({}));
    let mut over = 0u64;
    for (tag, n) in &undecided {
        let allowed = allow[tier.name()][tag].as_u64().or_else(|| allow["any"][tag].as_u64()).unwrap_or(0);
        if *n > allowed {
            eprintln!("machinery: {} evaluations undecided ({}), allowed {}", n, tag, allowed);
            over += 1;
        }
    }
    if !groups.is_empty() {
        1
    } else if over > 0 {
        eprintln!("machinery: undecided evaluations above the allowance; no verdict");
        2
    } else if machinery_failures > 0 {
        eprintln!("machinery: {} cases were not explored because a worker died; no verdict", machinery_failures);
        2
    } else {
        0
    }
}

pub fn _unused(_: HashMap<u8, u8>) {}
