//! Multi-package projects on disk: materialise, compile as a whole, build package by package
//! through `.interface` / `.core` files and link (exactly what `goml check|build|link` do).

use crate::oracle::*;
use compiler::artifact::{CoreUnit, InterfaceUnit};
use compiler::pipeline::pipeline::CompilationError;
use compiler::pipeline::separate::{PackageInputs, build_package, check_package, link_cores, read_core};
use std::collections::BTreeMap;
use std::panic::{AssertUnwindSafe, catch_unwind};
use std::path::{Path, PathBuf};

#[derive(Debug, Clone)]
pub struct Project {
    pub name: String,
    /// (relative path, content); the entry file is `main.gom`
    pub files: Vec<(String, String)>,
    pub expected_stdout: Option<String>,
}

#[derive(Debug, Clone)]
pub struct PkgInfo {
    pub name: String,
    pub files: Vec<String>,
    pub imports: Vec<String>,
}

pub fn corpus_projects() -> Vec<Project> {
    let root = Path::new("/repo/crates/compiler/src/tests/package");
    let mut out = Vec::new();
    let mut dirs: Vec<PathBuf> = std::fs::read_dir(root).map(|r| r.filter_map(|e| e.ok()).map(|e| e.path()).filter(|p| p.is_dir()).collect()).unwrap_or_default();
    dirs.sort();
    for d in dirs {
        let mut files = Vec::new();
        fn walk(base: &Path, dir: &Path, files: &mut Vec<(String, String)>) {
            let mut ents: Vec<PathBuf> = std::fs::read_dir(dir).map(|r| r.filter_map(|e| e.ok()).map(|e| e.path()).collect()).unwrap_or_default();
            ents.sort();
            for p in ents {
                if p.is_dir() {
                    walk(base, &p, files);
                } else if p.extension().is_some_and(|e| e == "gom") {
                    let rel = p.strip_prefix(base).unwrap().to_string_lossy().to_string();
                    files.push((rel, std::fs::read_to_string(&p).unwrap_or_default()));
                }
            }
        }
        walk(&d, &d, &mut files);
        let expected = std::fs::read_to_string(d.join("main.gom.out")).ok();
        if files.iter().any(|(p, _)| p == "main.gom") {
            out.push(Project { name: d.file_name().unwrap().to_string_lossy().to_string(), files, expected_stdout: expected });
        }
    }
    out
}

/// packages of a project, from the `package` / `import` lines (Main when no package line)
pub fn packages(p: &Project) -> Vec<PkgInfo> {
    let mut map: BTreeMap<String, PkgInfo> = BTreeMap::new();
    for (path, src) in &p.files {
        let mut pkg = "Main".to_string();
        let mut imports = Vec::new();
        for line in src.lines() {
            let l = line.trim();
            if let Some(rest) = l.strip_prefix("package ") {
                pkg = rest.trim().trim_end_matches(';').to_string();
            } else if let Some(rest) = l.strip_prefix("import ") {
                imports.push(rest.trim().trim_end_matches(';').to_string());
            }
        }
        // the directory decides which package a file belongs to
        let dir_pkg = match path.rsplit_once('/') {
            Some((d, _)) => d.to_string(),
            None => "Main".to_string(),
        };
        let _ = pkg;
        // `Builtin` is the compiler's own package: an import of it names no project package, and a
        // directory of that name is not part of the project (nothing can import it)
        if dir_pkg == "Builtin" {
            continue;
        }
        imports.retain(|i| i != "Builtin");
        let e = map.entry(dir_pkg.clone()).or_insert(PkgInfo { name: dir_pkg, files: vec![], imports: vec![] });
        e.files.push(path.clone());
        for i in imports {
            if !e.imports.contains(&i) {
                e.imports.push(i);
            }
        }
    }
    map.into_values().collect()
}

pub fn materialize(root: &Path, p: &Project, file_order: &[usize]) {
    let _ = std::fs::remove_dir_all(root);
    std::fs::create_dir_all(root).unwrap();
    for i in file_order {
        let (rel, content) = &p.files[*i];
        let path = root.join(rel);
        if let Some(parent) = path.parent() {
            std::fs::create_dir_all(parent).unwrap();
        }
        std::fs::write(path, content).unwrap();
    }
}

#[derive(Debug, Clone, PartialEq)]
pub enum Built {
    Ok { go: String },
    Err { stage: String, messages: Vec<String> },
    Panic(String),
}

pub fn err_of(e: &CompilationError) -> Built {
    let (stage, _) = crate::families::common::describe_err(e);
    Built::Err { stage: stage.to_string(), messages: e.diagnostics().iter().map(|d| d.message().to_string()).collect() }
}

/// whole-program compile of `<root>/main.gom`; also returns stage dumps for determinism checks
pub fn whole(root: &Path) -> (Built, Vec<(String, String)>) {
    whole_at(&root.join("main.gom"))
}

/// the same, for an entry path spelled as given (possibly relative to the current directory)
pub fn whole_at(path: &Path) -> (Built, Vec<(String, String)>) {
    let src = std::fs::read_to_string(path).unwrap_or_default();
    match compile_at(path, &src) {
        CompileOutcome::Ok(c) => {
            let go = go_text(&c).unwrap_or_else(|m| format!("<go printer panic: {}>", m));
            let dumps = vec![
                ("core".to_string(), format!("{:?}", c.core)),
                ("mono".to_string(), format!("{:?}", c.mono)),
                ("lift".to_string(), format!("{:?}", c.lambda)),
                ("anf".to_string(), format!("{:?}", c.anf)),
            ];
            (Built::Ok { go }, dumps)
        }
        CompileOutcome::Err(e) => (err_of(&e), vec![]),
        CompileOutcome::Panic(m) => (Built::Panic(m), vec![]),
    }
}

pub fn topo_orders(pkgs: &[PkgInfo]) -> Vec<Vec<String>> {
    // all topological orders (dependencies first)
    let names: Vec<String> = pkgs.iter().map(|p| p.name.clone()).collect();
    let mut out = Vec::new();
    fn rec(pkgs: &[PkgInfo], done: &mut Vec<String>, out: &mut Vec<Vec<String>>, n: usize) {
        if done.len() == n {
            out.push(done.clone());
            return;
        }
        if out.len() >= 24 {
            return;
        }
        for p in pkgs {
            if done.contains(&p.name) {
                continue;
            }
            if p.imports.iter().all(|i| done.contains(i) || !pkgs.iter().any(|q| &q.name == i)) {
                done.push(p.name.clone());
                rec(pkgs, done, out, n);
                done.pop();
            }
        }
    }
    rec(pkgs, &mut Vec::new(), &mut out, names.len());
    out
}

pub struct SepResult {
    pub built: Built,
    /// per package: (interface json from build, interface json from check if run, core json)
    pub artifacts: BTreeMap<String, (String, Option<String>, String)>,
    pub steps: u64,
}

fn guarded<T>(f: impl FnOnce() -> Result<T, CompilationError>) -> Result<T, Built> {
    match catch_unwind(AssertUnwindSafe(f)) {
        Ok(Ok(v)) => Ok(v),
        Ok(Err(e)) => Err(err_of(&e)),
        Err(p) => Err(Built::Panic(panic_message(p))),
    }
}

pub fn inputs(root: &Path, pkg: &PkgInfo, outdir: &Path) -> PackageInputs {
    PackageInputs { package: pkg.name.clone(), input_files: pkg.files.iter().map(|f| root.join(f)).collect(), interface_paths: vec![outdir.to_path_buf()] }
}

pub fn write_interface(outdir: &Path, unit: &InterfaceUnit) -> String {
    let json = serde_json::to_string_pretty(unit).unwrap();
    std::fs::write(outdir.join(format!("{}.interface", unit.package)), &json).unwrap();
    json
}

pub fn write_core(outdir: &Path, unit: &CoreUnit) -> String {
    let json = serde_json::to_string_pretty(unit).unwrap();
    std::fs::write(outdir.join(format!("{}.core", unit.package)), &json).unwrap();
    json
}

/// build every package in `order` through files in `outdir`, then read the cores back and link
pub fn separate(root: &Path, outdir: &Path, pkgs: &[PkgInfo], order: &[String], check_first: bool) -> SepResult {
    let _ = std::fs::remove_dir_all(outdir);
    std::fs::create_dir_all(outdir).unwrap();
    let mut artifacts = BTreeMap::new();
    let mut steps = 0u64;
    for name in order {
        let pkg = pkgs.iter().find(|p| &p.name == name).unwrap();
        let mut check_json = None;
        if check_first {
            steps += 1;
            match guarded(|| check_package(inputs(root, pkg, outdir))) {
                Ok(u) => check_json = Some(write_interface(outdir, &u)),
                Err(b) => return SepResult { built: b, artifacts, steps },
            }
        }
        steps += 1;
        match guarded(|| build_package(inputs(root, pkg, outdir))) {
            Ok(u) => {
                let ij = write_interface(outdir, &u.interface);
                let cj = write_core(outdir, &u);
                artifacts.insert(name.clone(), (ij, check_json, cj));
            }
            Err(b) => return SepResult { built: b, artifacts, steps },
        }
    }
    steps += 1;
    let mut units = Vec::new();
    for name in order {
        match guarded(|| read_core(&outdir.join(format!("{}.core", name)))) {
            Ok(u) => units.push(u),
            Err(b) => return SepResult { built: b, artifacts, steps },
        }
    }
    let linked = match guarded(|| link_cores(units)) {
        Ok(l) => l,
        Err(b) => return SepResult { built: b, artifacts, steps },
    };
    let go = match catch_unwind(AssertUnwindSafe(|| linked.go.to_pretty(&linked.goenv, 120))) {
        Ok(s) => s,
        Err(p) => return SepResult { built: Built::Panic(panic_message(p)), artifacts, steps },
    };
    SepResult { built: Built::Ok { go }, artifacts, steps }
}

pub fn run_go(go: &str, fuel: u64) -> Result<Obs, String> {
    let gr = analyse_and_run(go.to_string(), fuel);
    match (&gr.verdict, &gr.run) {
        (crate::gosem::GoVerdict::Ok(_), Some(r)) => Ok(obs_of_go(r)),
        (crate::gosem::GoVerdict::Rejected(errs), _) => Err(format!("go.{}: line {}: {}", errs[0].rule, errs[0].line, errs[0].msg)),
        (crate::gosem::GoVerdict::Unsupported(m), _) => Err(format!("machinery.unsupported: {}", m)),
        _ => Err("machinery: no run".into()),
    }
}

// ------------------------------------------------------------------ generated projects

fn p(name: &str, files: &[(&str, &str)], expected: &str) -> Project {
    Project { name: name.into(), files: files.iter().map(|(a, b)| (a.to_string(), b.to_string())).collect(), expected_stdout: Some(expected.to_string()) }
}

/// hand-written projects over the DAG shapes (incl. packages of several files whose enums are matched with bare
/// variant patterns from another file) {chain, diamond, fan-in, fan-out} with cross-package
/// generics, enums, structs, traits and impls in either the trait's or the type's package
pub fn generated_projects() -> Vec<Project> {
    vec![
        p(
            "chain3-generic-fn",
            &[
                ("main.gom", "package Main\nimport A\n\nfn main() {\n    string_println(int32_to_string(A::twice(3)));\n    string_println(A::both(\"x\"))\n}\n"),
                ("A/lib.gom", "package A\nimport B\n\nfn twice(x: int32) -> int32 { B::idg(x) + B::idg(x) }\nfn both(s: string) -> string { B::idg(s) + B::idg(s) }\n"),
                ("B/lib.gom", "package B\n\nfn idg[T](x: T) -> T { x }\n"),
            ],
            "6\nxx\n",
        ),
        p(
            "diamond-struct-enum",
            &[
                ("main.gom", "package Main\nimport A\nimport B\n\nfn main() {\n    let p = A::mk(2);\n    string_println(int32_to_string(B::weight(p) + A::get(p)));\n    string_println(int32_to_string(B::unwrap(C::Opt::Som(5))))\n}\n"),
                ("A/lib.gom", "package A\nimport C\n\nfn mk(v: int32) -> C::P { C::P { a: v } }\nfn get(p: C::P) -> int32 { p.a }\n"),
                ("B/lib.gom", "package B\nimport C\n\nfn weight(p: C::P) -> int32 { p.a * 10 }\nfn unwrap(o: C::Opt) -> int32 { match o { C::Opt::Som(v) => v, C::Opt::Non => 0 } }\n"),
                ("C/lib.gom", "package C\n\nstruct P { a: int32 }\nenum Opt { Non, Som(int32) }\n"),
            ],
            "22\n5\n",
        ),
        p(
            "fan-out-traits",
            &[
                ("main.gom", "package Main\nimport T\nimport D\n\nfn show_it[U: T::Show](u: U) -> string { T::Show::show(u) }\n\nfn main() {\n    string_println(show_it(D::S { a: 4 }));\n    string_println(show_it(7));\n    let d: dyn T::Show = D::S { a: 9 };\n    string_println(T::Show::show(d))\n}\n"),
                ("T/lib.gom", "package T\n\ntrait Show { fn show(Self) -> string; }\n\nimpl Show for int32 { fn show(self: int32) -> string { \"i\" + int32_to_string(self) } }\n"),
                ("D/lib.gom", "package D\nimport T\n\nstruct S { a: int32 }\n\nimpl T::Show for S { fn show(self: S) -> string { \"S\" + int32_to_string(self.a) } }\n"),
            ],
            "S4\ni7\nS9\n",
        ),
        p(
            "fan-in-generic-enum",
            &[
                ("main.gom", "package Main\nimport L\nimport U\n\nfn main() {\n    let xs = U::build(3);\n    string_println(int32_to_string(L::len(xs)));\n    string_println(int32_to_string(L::head_or(xs, 0)))\n}\n"),
                ("L/lib.gom", "package L\n\nenum List[T] { Nil, Cons(T, List[T]) }\n\nfn len[T](l: List[T]) -> int32 { match l { List::Nil => 0, List::Cons(h, t) => 1 + len(t) } }\nfn head_or[T](l: List[T], d: T) -> T { match l { List::Nil => d, List::Cons(h, t) => h } }\n"),
                ("U/lib.gom", "package U\nimport L\n\nfn build(n: int32) -> L::List[int32] { if n < 1 { L::List::Nil } else { L::List::Cons(n, build(n - 1)) } }\n"),
            ],
            "3\n3\n",
        ),
        p(
            "two-files-in-package",
            &[
                ("main.gom", "package Main\nimport A\n\nfn main() { string_println(int32_to_string(A::f() + A::g() + helper())) }\n"),
                ("util.gom", "package Main\n\nfn helper() -> int32 { 100 }\n"),
                ("A/one.gom", "package A\n\nfn f() -> int32 { 1 }\n"),
                ("A/two.gom", "package A\n\nfn g() -> int32 { f() + 10 }\n"),
            ],
            "112\n",
        ),
        p(
            "enum-declared-in-another-file",
            &[
                ("main.gom", "package Main\nimport A\n\nfn code(c: Color) -> int32 {\n    match c { Red => 1, Green => 2, Rgb(k) => k, Blue => 3 }\n}\n\nfn main() {\n    string_println(int32_to_string(code(Green)) + int32_to_string(code(Color::Blue)) + int32_to_string(code(Rgb(7))) + int32_to_string(code(Red)));\n    string_println(int32_to_string(A::rank(A::mk(2))))\n}\n"),
                ("types.gom", "package Main\n\nenum Color { Red, Green, Blue, Rgb(int32) }\n"),
                ("A/shapes.gom", "package A\n\nenum Shape { Dot, Line, Poly(int32) }\n\nfn mk(n: int32) -> Shape { if n < 1 { Dot } else { if n < 2 { Line } else { Poly(n) } } }\n"),
                ("A/rank.gom", "package A\n\nfn rank(s: Shape) -> int32 {\n    match s { Dot => 10, Line => 20, Poly(n) => 30 + n }\n}\n"),
            ],
            "2371\n32\n",
        ),
        p(
            "closure-across-packages",
            &[
                ("main.gom", "package Main\nimport A\n\nfn main() {\n    let k = 5;\n    let r = A::apply_twice(3);\n    string_println(int32_to_string(r + k))\n}\n"),
                ("A/lib.gom", "package A\n\nfn apply_twice(x: int32) -> int32 {\n    let step = 2;\n    let f = |q: int32| q + step;\n    f(f(x))\n}\n"),
            ],
            "12\n",
        ),
    ]
}

/// Main -> Mid -> Leaf, Main does not import Leaf: every way Main can touch what Leaf declares
/// (through Mid's API, by naming it, or by declaring something of the same name itself). Whatever
/// the verdict is, both pipelines must agree on it (and on the output).
pub fn indirect_dependency_projects() -> Vec<Project> {
    let leaf = "package Leaf\n\nstruct P { x: int32, y: int32 }\ntrait Show { fn show(Self) -> string; }\nimpl Show for P { fn show(self: P) -> string { \"P\" + int32_to_string(self.x) } }\nimpl P { fn get(self: P) -> int32 { self.x + self.y } }\nfn mk(n: int32) -> P { P { x: n, y: n + 1 } }\n";
    let mid = "package Mid\nimport Leaf\n\nfn corner(n: int32) -> Leaf::P { Leaf::mk(n) }\nfn x_of(p: Leaf::P) -> int32 { p.x }\nfn shown(p: Leaf::P) -> string { Leaf::Show::show(p) }\n";
    let mut out = Vec::new();
    for (which, main_body) in [
        ("opaque-pass", "fn main() { let c = Mid::corner(3); string_println(int32_to_string(Mid::x_of(c)) + Mid::shown(c)) }"),
        ("field-access", "fn main() { let c = Mid::corner(3); string_println(int32_to_string(c.x + c.y)) }"),
        ("method-dot", "fn main() { let c = Mid::corner(3); string_println(int32_to_string(c.get())) }"),
        ("inherent-path", "fn main() { let c = Mid::corner(3); string_println(int32_to_string(Leaf::P::get(c))) }"),
        ("trait-path", "fn main() { let c = Mid::corner(3); string_println(Leaf::Show::show(c)) }"),
        ("trait-bound", "fn describe[T: Leaf::Show](t: T) -> string { t.show() }\nfn main() { string_println(describe(Mid::corner(3))) }"),
        ("type-annotation", "fn main() { let c: Leaf::P = Mid::corner(3); string_println(int32_to_string(Mid::x_of(c))) }"),
        ("struct-literal", "fn main() { let c = Leaf::P { x: 1, y: 2 }; string_println(int32_to_string(Mid::x_of(c))) }"),
        ("struct-pattern", "fn main() { let c = Mid::corner(3); let r = match c { Leaf::P { x: a, y: b } => a + b }; string_println(int32_to_string(r)) }"),
        ("function-call", "fn main() { let c = Leaf::mk(3); string_println(int32_to_string(Mid::x_of(c))) }"),
        ("local-struct-named-like-the-package", "struct Leaf { v: int32 }\nimpl Leaf { fn origin() -> Leaf { Leaf { v: 7 } } fn val(self: Leaf) -> int32 { self.v } }\nfn main() { let o = Leaf::origin(); string_println(int32_to_string(o.val() + Mid::x_of(Mid::corner(3)))) }"),
        ("local-enum-named-like-the-package", "enum Leaf { Green, Dry(int32) }\nfn w(l: Leaf) -> int32 { match l { Leaf::Green => 1, Leaf::Dry(k) => k } }\nfn main() { string_println(int32_to_string(w(Leaf::Green) + w(Leaf::Dry(5)) + Mid::x_of(Mid::corner(3)))) }"),
        ("local-items-named-like-its-items", "struct P { k: int32 }\ntrait Show { fn show(Self) -> string; }\nimpl Show for P { fn show(self: P) -> string { \"mine\" } }\nfn mk(n: int32) -> P { P { k: n } }\nfn main() { string_println(Show::show(mk(1)) + Mid::shown(Mid::corner(3))) }"),
    ] {
        out.push(Project {
            name: format!("indirect-dependency-{}", which),
            files: vec![("main.gom".into(), format!("package Main\nimport Mid\n\n{}\n", main_body)), ("Mid/lib.gom".into(), mid.into()), ("Leaf/lib.gom".into(), leaf.into())],
            expected_stdout: None,
        });
        // the same Main importing Leaf as well: for the bodies that never spell `Leaf::` the import is needed
        // (if at all) only for what the type checker knows about Leaf's types
        out.push(Project {
            name: format!("indirect-dependency-also-imported-{}", which),
            files: vec![("main.gom".into(), format!("package Main\nimport Mid\nimport Leaf\n\n{}\n", main_body)), ("Mid/lib.gom".into(), mid.into()), ("Leaf/lib.gom".into(), leaf.into())],
            expected_stdout: None,
        });
    }
    out
}

/// one spelling declared in two packages (variants, enums, structs, functions, traits and their
/// methods, impls): the Go names of the two must differ

/// projects whose *size* varies: chains of n packages, n libraries under one Main, a library of n files
/// (named so that their order as text differs from their order as numbers from 10 on)
pub fn size_projects() -> Vec<Project> {
    let mut v = Vec::new();
    for n in [3usize, 5, 8, 11] {
        // P1 -> P2 -> ... -> Pn
        let mut files: Vec<(String, String)> = Vec::new();
        files.push(("main.gom".into(), "package Main\nimport P1\n\nfn main() {\n    string_println(int32_to_string(P1::f(1)));\n    string_println(P1::g(\"s\"));\n    let c = P1::mk();\n    string_println(int32_to_string(c(0)))\n}\n".into()));
        for k in 1..=n {
            let body = if k < n {
                format!("package P{k}\nimport P{m}\n\nstruct S {{ v: int32 }}\nfn f(x: int32) -> int32 {{ let s = S {{ v: {k} }}; P{m}::f(x) + s.v }}\nfn g[T](x: T) -> T {{ P{m}::g(x) }}\nfn mk() -> (int32) -> int32 {{ let c = {k}; let inner = P{m}::mk(); |q: int32| q + c + inner(0) }}\n", k = k, m = k + 1)
            } else {
                format!("package P{k}\n\nstruct S {{ v: int32 }}\nfn f(x: int32) -> int32 {{ x }}\nfn g[T](x: T) -> T {{ x }}\nfn mk() -> (int32) -> int32 {{ |q: int32| q + {k} }}\n", k = k)
            };
            files.push((format!("P{}/lib.gom", k), body));
        }
        let s: usize = (1..n).sum();
        v.push(Project { name: format!("size-chain-{}", n), files, expected_stdout: Some(format!("{}\ns\n{}\n", 1 + s, s + n)) });
    }
    for n in [3usize, 4] {
        let mut main = String::from("package Main\n");
        for k in 1..=n { main.push_str(&format!("import L{}\n", k)); }
        main.push_str("\nfn main() {\n");
        let mut want = String::new();
        for k in 1..=n {
            main.push_str(&format!("    string_println(int32_to_string(L{k}::get(L{k}::mk()) + L{k}::code(L{k}::E::B({k}))));\n", k = k));
            want.push_str(&format!("{}\n", 10 * k + k));
        }
        main.push_str("}\n");
        let mut files = vec![("main.gom".to_string(), main)];
        for k in 1..=n {
            files.push((format!("L{}/lib.gom", k), format!("package L{k}\n\nstruct S {{ v: int32 }}\nenum E {{ A, B(int32) }}\nfn mk() -> S {{ S {{ v: {v} }} }}\nfn get(s: S) -> int32 {{ s.v }}\nfn code(e: E) -> int32 {{ match e {{ E::A => 0, E::B(q) => q }} }}\n", k = k, v = 10 * k)));
        }
        v.push(Project { name: format!("size-wide-{}", n), files, expected_stdout: Some(want) });
    }
    for n in [3usize, 9, 12] {
        // one library of n files f1.gom .. fn.gom: fk calls f(k+1)
        let mut files = vec![("main.gom".to_string(), "package Main\nimport Lib\n\nfn main() {\n    string_println(int32_to_string(Lib::f1(0)))\n}\n".to_string())];
        for k in 1..=n {
            let body = if k < n { format!("package Lib\n\nstruct T{k} {{ v: int32 }}\nfn f{k}(x: int32) -> int32 {{ let t = T{k} {{ v: {k} }}; f{m}(x + t.v) }}\n", k = k, m = k + 1) } else { format!("package Lib\n\nfn f{k}(x: int32) -> int32 {{ x * 2 }}\n", k = k) };
            files.push((format!("Lib/f{}.gom", k), body));
        }
        let s: usize = (1..n).sum();
        v.push(Project { name: format!("size-files-{}", n), files, expected_stdout: Some(format!("{}\n", 2 * s)) });
    }
    v
}

pub fn same_name_projects() -> Vec<Project> {
    vec![
        p(
            "same-variant-name-in-two-packages",
            &[
                ("main.gom", "package Main\nimport Lib\n\nenum Color { Red, Blue }\nfn code(c: Color) -> int32 { match c { Color::Red => 1, Color::Blue => 2 } }\nfn main() { string_println(int32_to_string(code(Color::Red) + code(Color::Blue)) + int32_to_string(Lib::rank(Lib::Light::Red) + Lib::rank(Lib::first()))) }\n"),
                ("Lib/lib.gom", "package Lib\n\nenum Light { Red, Green }\nfn rank(l: Light) -> int32 { match l { Light::Red => 10, Light::Green => 20 } }\nfn first() -> Light { Light::Green }\n"),
            ],
            "330\n",
        ),
        p(
            "same-variant-name-with-payload-in-two-packages",
            &[
                ("main.gom", "package Main\nimport Lib\n\nenum Mine { Box(int32), Nope }\nfn open(m: Mine) -> int32 { match m { Mine::Box(k) => k, Mine::Nope => 0 } }\nfn main() { string_println(int32_to_string(open(Mine::Box(4))) + Lib::open(Lib::Theirs::Box(\"s\"))) }\n"),
                ("Lib/lib.gom", "package Lib\n\nenum Theirs { Box(string), Other }\nfn open(t: Theirs) -> string { match t { Theirs::Box(s) => s, Theirs::Other => \"-\" } }\n"),
            ],
            "4s\n",
        ),
        p(
            "same-type-and-function-names-in-two-packages",
            &[
                ("main.gom", "package Main\nimport Lib\n\nstruct Item { k: int32 }\nenum Kind { A, B }\nfn mk(k: int32) -> Item { Item { k: k } }\nfn tag(x: Kind) -> int32 { match x { Kind::A => 1, Kind::B => 2 } }\nfn main() { let a = mk(1); let b = Lib::mk(\"z\"); string_println(int32_to_string(a.k + tag(Kind::B)) + b.k + Lib::tag(Lib::Kind::A)) }\n"),
                ("Lib/lib.gom", "package Lib\n\nstruct Item { k: string }\nenum Kind { A, B }\nfn mk(k: string) -> Item { Item { k: k } }\nfn tag(x: Kind) -> string { match x { Kind::A => \"a\", Kind::B => \"b\" } }\n"),
            ],
            "3za\n",
        ),
        p(
            "same-trait-and-method-names-in-two-packages",
            &[
                ("main.gom", "package Main\nimport Lib\n\ntrait Show { fn show(Self) -> string; }\nstruct S { k: int32 }\nimpl Show for S { fn show(self: S) -> string { \"main\" } }\nimpl Lib::Show for S { fn show(self: S) -> string { \"lib\" } }\nimpl S { fn get(self: S) -> int32 { self.k } }\nfn main() { let s = S { k: 1 }; let d: dyn Lib::Show = s; let e: dyn Show = s; string_println(Show::show(s) + Lib::Show::show(s) + Lib::Show::show(d) + Show::show(e) + Lib::via(s) + int32_to_string(s.get() + Lib::T::get(Lib::mk()))) }\n"),
                ("Lib/lib.gom", "package Lib\n\ntrait Show { fn show(Self) -> string; }\nstruct T { k: int32 }\nimpl T { fn get(self: T) -> int32 { self.k * 10 } }\nfn mk() -> T { T { k: 2 } }\nfn via[U: Show](u: U) -> string { Show::show(u) }\n"),
            ],
            "mainliblibmainlib21\n",
        ),
    ]
}

/// a package is its files together, whatever their order: whole-program compilation puts the entry
/// file first, `build` sorts the files by path; items are used in a file that comes before (in one
/// of the two orders) the file that declares them
pub fn file_order_projects() -> Vec<Project> {
    let mut v = Vec::new();
    // (item kind, declaration, use) - the declaration goes to one file, the use to another
    let pairs: [(&str, &str, &str, &str); 8] = [
        ("trait", "trait Show { fn show(Self) -> string; }\nstruct W { k: int32 }\nimpl Show for W { fn show(self: W) -> string { \"w\" + int32_to_string(self.k) } }\nfn mkw() -> W { W { k: 4 } }\n", "fn used() -> string { let d: dyn Show = mkw(); Show::show(d) }\n", "w4\n"),
        ("trait-and-impl-apart", "trait Show { fn show(Self) -> string; }\n", "struct W { k: int32 }\nimpl Show for W { fn show(self: W) -> string { \"w\" + int32_to_string(self.k) } }\nfn used() -> string { Show::show(W { k: 4 }) }\n", "w4\n"),
        ("trait-bound", "trait Show { fn show(Self) -> string; }\nimpl Show for int32 { fn show(self: int32) -> string { \"i\" + int32_to_string(self) } }\n", "fn via[T: Show](x: T) -> string { Show::show(x) }\nfn used() -> string { via(4) }\n", "i4\n"),
        ("struct", "struct W { k: int32 }\n", "fn used() -> string { let w = W { k: 4 }; \"w\" + int32_to_string(w.k) }\n", "w4\n"),
        ("enum", "enum E { A, B(int32) }\n", "fn used() -> string { match B(4) { A => \"a\", B(k) => \"b\" + int32_to_string(k) } }\n", "b4\n"),
        ("inherent-method", "struct W { k: int32 }\nimpl W { fn get(self: W) -> int32 { self.k } }\n", "fn used() -> string { let w = W { k: 4 }; \"w\" + int32_to_string(w.get()) }\n", "w4\n"),
        // a foreign type named in signatures of another file (nothing foreign is called: the program runs)
        ("extern-type", "extern type Stamp\n", "extern \"go\" \"time\" \"Unix\" unix(s: int64, n: int64) -> Stamp\nfn keep(t: Stamp) -> Stamp { t }\nfn used() -> string { \"e4\" }\n", "e4\n"),
        ("function", "fn helper() -> int32 { 4 }\n", "fn used() -> string { \"h\" + int32_to_string(helper()) }\n", "h4\n"),
    ];
    for (kind, decl, usage, out) in pairs {
        // the entry file is main.gom; `aaa.gom` sorts before it, `zzz.gom` after it
        for (decl_file, use_file) in [("aaa.gom", "main.gom"), ("zzz.gom", "main.gom"), ("main.gom", "aaa.gom"), ("main.gom", "zzz.gom"), ("aaa.gom", "zzz.gom"), ("zzz.gom", "aaa.gom")] {
            let mut files: Vec<(String, String)> = Vec::new();
            let mut main = String::from("package Main\n\n");
            if decl_file == "main.gom" {
                main.push_str(decl);
            }
            if use_file == "main.gom" {
                main.push_str(usage);
            }
            main.push_str("fn main() { string_println(used()) }\n");
            files.push(("main.gom".into(), main));
            for f in ["aaa.gom", "zzz.gom"] {
                let mut t = String::from("package Main\n\n");
                let mut any = false;
                if decl_file == f {
                    t.push_str(decl);
                    any = true;
                }
                if use_file == f {
                    t.push_str(usage);
                    any = true;
                }
                if any {
                    files.push((f.into(), t));
                }
            }
            v.push(Project { name: format!("file-order-{}-declared-in-{}-used-in-{}", kind, decl_file.trim_end_matches(".gom"), use_file.trim_end_matches(".gom")), files, expected_stdout: if kind == "extern-type" { None } else { Some(out.into()) } });
        }
    }
    v
}

/// programs whose entry point is missing or has another shape: both pipelines give one verdict, and an
/// accepted program is valid Go
pub fn entry_point_projects() -> Vec<Project> {
    let q = |name: &str, files: &[(&str, &str)]| Project { name: name.into(), files: files.iter().map(|(a, b)| (a.to_string(), b.to_string())).collect(), expected_stdout: None };
    vec![
        q("entry-point-missing", &[("main.gom", "package Main\n\nfn helper() -> int32 { 1 }\n")]),
        q("entry-point-missing-package-of-two-files", &[("main.gom", "package Main\n\nfn helper() -> int32 { other() }\n"), ("other.gom", "package Main\n\nfn other() -> int32 { 2 }\n")]),
        q("entry-point-only-in-library", &[("main.gom", "package Main\nimport Lib\n\nfn helper() -> unit { Lib::main() }\n"), ("Lib/lib.gom", "package Lib\n\nfn main() -> unit { string_println(\"lib\") }\n")]),
        q("entry-point-in-sibling-file", &[("main.gom", "package Main\n\nfn helper() -> int32 { 1 }\n"), ("zzz.gom", "package Main\n\nfn main() { string_println(int32_to_string(helper())) }\n")]),
        q("entry-point-with-parameter", &[("main.gom", "package Main\n\nfn main(k: int32) -> unit { string_println(int32_to_string(k)) }\n")]),
        q("entry-point-returning-int", &[("main.gom", "package Main\n\nfn main() -> int32 { string_println(\"m\"); 3 }\n")]),
        q("entry-point-generic", &[("main.gom", "package Main\n\nfn main[T]() -> unit { string_println(\"g\") }\n")]),
        q("entry-point-is-a-struct", &[("main.gom", "package Main\n\nstruct main { k: int32 }\nfn helper() -> int32 { 1 }\n")]),
    ]
}

/// what a package means must survive being written to and read back from its artifact files:
/// float literals with up to 17 significant digits, and function bodies of growing length (one
/// nesting level of the serialised IR per statement)
pub fn artifact_fidelity_projects() -> Vec<Project> {
    let mut out = Vec::new();
    let floats = [
        "0.9999999999999999", "0.1", "0.30000000000000004", "1.0000000000000002", "123456789.12345678", "2.2250738585072014", "9007199254740993.0", "0.000000000000000000001234567890123456",
        "1.7976931348623157", "4.35", "0.7000000000000001", "100.00000000000001",
    ];
    let mut lib = String::from("package Lib\n\n");
    let mut main = String::from("package Main\nimport Lib\n\nfn local() -> float64 { 0.9999999999999999 }\n\nfn main() {\n    string_println(float64_to_string(local()));\n");
    for (i, f) in floats.iter().enumerate() {
        lib.push_str(&format!("fn f{}() -> float64 {{ {} }}\n", i, f));
        main.push_str(&format!("    string_println(float64_to_string(Lib::f{}()));\n", i));
    }
    lib.push_str("fn g32() -> float32 { 16777217.000000001f32 }\n");
    main.push_str("    string_println(float32_to_string(Lib::g32()))\n}\n");
    out.push(Project { name: "artifact-fidelity-float-literals".into(), files: vec![("main.gom".into(), main), ("Lib/lib.gom".into(), lib)], expected_stdout: None });
    for n in [20usize, 40, 60, 80, 160, 320] {
        let mut lib = String::from("package Lib\n\nfn chain(a: int32) -> int32 {\n    let v0 = a;\n");
        for i in 1..=n {
            lib.push_str(&format!("    let v{} = v{} + 1;\n", i, i - 1));
        }
        lib.push_str(&format!("    v{}\n}}\n", n));
        out.push(Project {
            name: format!("artifact-fidelity-body-of-{}-statements", n),
            files: vec![("main.gom".into(), "package Main\nimport Lib\n\nfn main() { string_println(int32_to_string(Lib::chain(1))) }\n".into()), ("Lib/lib.gom".into(), lib)],
            expected_stdout: Some(format!("{}\n", n + 1)),
        });
    }
    for n in [40usize, 160] {
        // nesting by expression depth instead of statement count
        let mut e = String::from("a");
        for _ in 0..n {
            e = format!("({} + 1)", e);
        }
        out.push(Project {
            name: format!("artifact-fidelity-expression-of-depth-{}", n),
            files: vec![("main.gom".into(), "package Main\nimport Lib\n\nfn main() { string_println(int32_to_string(Lib::deep(1))) }\n".into()), ("Lib/lib.gom".into(), format!("package Lib\n\nfn deep(a: int32) -> int32 {{ {} }}\n", e))],
            expected_stdout: Some(format!("{}\n", n + 1)),
        });
    }
    // the builtin package named in an import
    out.push(Project { name: "import-of-builtin".into(), files: vec![("main.gom".into(), "package Main\nimport Builtin\n\nfn main() { string_println(\"x\") }\n".into())], expected_stdout: None });
    // a project directory that declares the package name of the compiler's builtins
    out.push(Project {
        name: "user-package-named-builtin-used".into(),
        files: vec![("main.gom".into(), "package Main\nimport Builtin\n\nfn main() { string_println(Builtin::helper()) }\n".into()), ("Builtin/lib.gom".into(), "package Builtin\n\nfn helper() -> string { \"mine\" }\n".into())],
        expected_stdout: None,
    });
    out.push(Project {
        name: "user-package-named-builtin-shadowing".into(),
        files: vec![
            ("main.gom".into(), "package Main\nimport Builtin\n\ntrait Show { fn show(Self) -> string; }\nimpl Show for int32 { fn show(self: int32) -> string { \"Main\" } }\nfn main() { string_println(Show::show(1)) }\n".into()),
            ("Builtin/lib.gom".into(), "package Builtin\n\ntrait Show { fn show(Self) -> string; }\nimpl Show for int32 { fn show(self: int32) -> string { \"user Builtin\" } }\nfn string_println(s: string) -> unit { () }\n".into()),
        ],
        expected_stdout: None,
    });
    out.push(Project {
        name: "import-of-builtin-in-a-library".into(),
        files: vec![("main.gom".into(), "package Main\nimport Lib\n\nfn main() { string_println(Lib::s()) }\n".into()), ("Lib/lib.gom".into(), "package Lib\nimport Builtin\n\nfn s() -> string { \"x\" }\n".into())],
        expected_stdout: None,
    });
    out
}

/// ill-typed variants: one type error in a leaf / middle / root package of the chain project
pub fn erroneous_projects() -> Vec<Project> {
    let base = &generated_projects()[0];
    let mut out = Vec::new();
    for (which, file, from, to) in [
        ("leaf", "B/lib.gom", "fn idg[T](x: T) -> T { x }", "fn idg[T](x: T) -> T { 1 }"),
        ("middle", "A/lib.gom", "B::idg(x) + B::idg(x)", "B::idg(x) + true"),
        ("root", "main.gom", "A::twice(3)", "A::twice(\"no\")"),
        ("two-errors", "main.gom", "A::both(\"x\")", "A::both(1) + A::nope()"),
    ] {
        let mut q = base.clone();
        q.name = format!("chain3-error-in-{}", which);
        q.expected_stdout = None;
        for f in q.files.iter_mut() {
            if f.0 == file {
                f.1 = f.1.replace(from, to);
            }
        }
        out.push(q);
    }
    // the bound of a generic function of a library, at a call in another package
    for (which, call, ok) in [
        ("satisfied-by-an-impl-in-the-library", "Lib::need(1)", true),
        ("satisfied-by-an-impl-in-main", "Lib::need(Mine { k: 2 })", true),
        ("not-satisfied-primitive", "Lib::need(true)", false),
        ("not-satisfied-struct", "Lib::need(Other { k: 2 })", false),
        ("not-satisfied-dyn", "Lib::need(as_dyn())", false),
        ("satisfied-through-mains-own-bound", "through(1)", true),
        ("not-satisfied-through-an-unbounded-caller", "unbounded(1)", false),
        // the bound of a type parameter of a method of a library type
        ("method-dot-satisfied", "Lib::mk().with(1)", true),
        ("method-dot-not-satisfied", "Lib::mk().with(true)", false),
        ("method-path-satisfied", "Lib::Sb::with(Lib::mk(), 1)", true),
        ("method-path-not-satisfied", "Lib::Sb::with(Lib::mk(), Other { k: 2 })", false),
        ("method-of-a-generic-impl-not-satisfied", "Lib::Bx::describe(Lib::bx(), true)", false),
        ("method-of-a-generic-impl-satisfied-by-an-impl-in-main", "Lib::Bx::describe(Lib::bx(), Mine { k: 2 })", true),
    ] {
        out.push(Project {
            name: format!("bound-across-packages-{}", which),
            files: vec![
                (
                    "main.gom".into(),
                    format!(
                        "package Main\nimport Lib\n\nstruct Mine {{ k: int32 }}\nstruct Other {{ k: int32 }}\nimpl Lib::Tr for Mine {{ fn m(self: Mine) -> string {{ \"mine\" }} }}\nfn as_dyn() -> dyn Lib::Tr {{ let one: int32 = 1; one }}\nfn through[V: Lib::Tr](v: V) -> string {{ Lib::need(v) }}\nfn unbounded[V](v: V) -> string {{ {} }}\nfn main() {{ string_println({}) }}\n",
                        if which == "not-satisfied-through-an-unbounded-caller" { "Lib::need(v)" } else { "\"u\"" },
                        call
                    ),
                ),
                ("Lib/lib.gom".into(), "package Lib\n\ntrait Tr { fn m(Self) -> string; }\nimpl Tr for int32 { fn m(self: int32) -> string { \"int\" } }\nfn need[U: Tr](u: U) -> string { Tr::m(u) }\nstruct Sb { a: int32 }\nstruct Bx[T] { v: T }\nfn mk() -> Sb { Sb { a: 1 } }\nfn bx() -> Bx[bool] { Bx { v: true } }\nimpl Sb { fn with[W: Tr](self: Sb, w: W) -> string { Tr::m(w) } }\nimpl[T] Bx[T] { fn describe[W: Tr](self: Bx[T], w: W) -> string { Tr::m(w) } }\n".into()),
            ],
            expected_stdout: if ok { Some(if which.contains("in-main") { "mine\n".into() } else { "int\n".into() }) } else { None },
        });
    }
    // name-resolution errors that only one file of a package has: imports are per file
    for (which, b_src) in [
        ("type-position", "package Util\n\nfn area(p: Lib::Point) -> int32 { p.x }\n"),
        ("struct-literal", "package Util\n\nfn origin_x() -> int32 { let p = Lib::Point { x: 0 }; p.x }\n"),
        ("impl-header", "package Util\n\nstruct W { k: int32 }\nimpl Lib::Show for W { fn show(self: W) -> string { \"w\" } }\n"),
        ("let-annotation", "package Util\n\nfn count() -> int32 { let v: Vec[Lib::Point] = vec_new(); vec_len(v) }\n"),
    ] {
        out.push(Project {
            name: format!("per-file-import-missing-{}", which),
            files: vec![
                ("main.gom".into(), "package Main\nimport Util\n\nfn main() { string_println(int32_to_string(Util::twice(2))) }\n".into()),
                ("Util/a.gom".into(), "package Util\nimport Lib\n\nfn twice(k: int32) -> int32 { Lib::mk(k).x + k }\n".into()),
                ("Util/b.gom".into(), b_src.into()),
                ("Lib/lib.gom".into(), "package Lib\n\nstruct Point { x: int32 }\ntrait Show { fn show(Self) -> string; }\nfn mk(k: int32) -> Point { Point { x: k } }\n".into()),
            ],
            expected_stdout: None,
        });
    }
    // import graphs that are not DAGs
    for (which, files) in [
        ("self-import-main", vec![("main.gom", "package Main\nimport Main\n\nfn main() { string_println(\"hi\") }\n")]),
        (
            "self-import-lib",
            vec![("main.gom", "package Main\nimport A\n\nfn main() { string_println(int32_to_string(A::f())) }\n"), ("A/lib.gom", "package A\nimport A\n\nfn f() -> int32 { 1 }\n")],
        ),
        (
            "self-import-lib-used",
            vec![("main.gom", "package Main\nimport A\n\nfn main() { string_println(int32_to_string(A::g())) }\n"), ("A/lib.gom", "package A\nimport A\n\nfn f() -> int32 { 1 }\nfn g() -> int32 { A::f() + 1 }\n")],
        ),
        (
            "two-cycle",
            vec![
                ("main.gom", "package Main\nimport A\n\nfn main() { string_println(int32_to_string(A::f())) }\n"),
                ("A/lib.gom", "package A\nimport B\n\nfn f() -> int32 { 1 }\n"),
                ("B/lib.gom", "package B\nimport A\n\nfn g() -> int32 { 2 }\n"),
            ],
        ),
        (
            "import-of-main",
            vec![("main.gom", "package Main\nimport A\n\nfn helper() -> int32 { 5 }\nfn main() { string_println(int32_to_string(A::f())) }\n"), ("A/lib.gom", "package A\nimport Main\n\nfn f() -> int32 { 1 }\n")],
        ),
    ] {
        out.push(Project { name: format!("not-a-dag-{}", which), files: files.into_iter().map(|(a, b)| (a.to_string(), b.to_string())).collect(), expected_stdout: None });
    }
    // one package, one loop of the compiler reporting >= 3 diagnostics: their order is observable
    for (which, src) in [
        ("missing-trait-methods", "package Main\n\ntrait Tr { fn a(Self) -> int32; fn b(Self) -> int32; fn c(Self) -> int32; fn d(Self) -> int32; fn e(Self) -> int32; }\nstruct S { v: int32 }\nimpl Tr for S { }\nfn main() { () }\n"),
        ("extra-trait-methods", "package Main\n\ntrait Tr { fn a(Self) -> int32; }\nstruct S { v: int32 }\nimpl Tr for S { fn a(self: S) -> int32 { 1 } fn p(self: S) -> int32 { 1 } fn q(self: S) -> int32 { 1 } fn r(self: S) -> int32 { 1 } fn s(self: S) -> int32 { 1 } }\nfn main() { () }\n"),
        ("wrong-trait-method-signatures", "package Main\n\ntrait Tr { fn a(Self) -> int32; fn b(Self) -> int32; fn c(Self) -> int32; fn d(Self) -> int32; }\nstruct S { v: int32 }\nimpl Tr for S { fn a(self: S) -> bool { true } fn b(self: S) -> bool { true } fn c(self: S) -> bool { true } fn d(self: S) -> bool { true } }\nfn main() { () }\n"),
        ("unknown-names", "package Main\n\nfn main() { let r = n1 + n2 + n3 + n4 + n5; string_println(int32_to_string(r)) }\n"),
        ("unknown-types", "package Main\n\nfn f(a: T1, b: T2, c: T3, d: T4) -> T5 { a }\nfn main() { () }\n"),
        ("missing-struct-fields", "package Main\n\nstruct S { a: int32, b: int32, c: int32, d: int32, e: int32 }\nfn main() { let s = S { }; let t = S { p: 1, q: 2, r: 3, a: 1, b: 2, c: 3, d: 4, e: 5 }; () }\n"),
        ("ambiguous-constructors", "package Main\n\nenum E1 { K, A1 }\nenum E2 { K, A2 }\nenum E3 { K, A3 }\nenum E4 { K, A4 }\nfn main() { let x = K; () }\n"),
        ("non-exhaustive-match", "package Main\n\nenum E { A, B, C, D, F }\nfn f(e: E) -> int32 { match e { A => 1 } }\nfn g(e: E, h: E) -> int32 { match (e, h) { (A, A) => 1 } }\nfn main() { () }\n"),
        ("errors-in-several-functions", "package Main\n\nfn z() -> int32 { true }\nfn y() -> int32 { \"s\" }\nfn x() -> bool { 1 }\nfn w() -> string { 2 }\nfn main() { () }\n"),
        ("errors-in-several-impls", "package Main\n\nstruct S { v: int32 }\nstruct T { v: int32 }\ntrait Tr { fn a(Self) -> int32; }\nimpl Tr for S { fn a(self: S) -> int32 { true } }\nimpl Tr for T { fn a(self: T) -> int32 { \"s\" } }\nimpl S { fn m(self: S) -> int32 { () } }\nimpl T { fn m(self: T) -> int32 { () } }\nfn main() { () }\n"),
        ("duplicate-definitions", "package Main\n\nfn f() -> int32 { 1 }\nfn f() -> int32 { 2 }\nstruct S { a: int32, a: int32 }\nstruct S { b: int32 }\nenum E { A, A }\ntrait Tr { fn a(Self) -> int32; }\ntrait Tr { fn b(Self) -> int32; }\nfn main() { () }\n"),
        ("duplicate-impls", "package Main\n\ntrait Tr { fn a(Self) -> int32; }\nimpl Tr for int32 { fn a(self: int32) -> int32 { 1 } }\nimpl Tr for int32 { fn a(self: int32) -> int32 { 2 } }\nimpl Tr for bool { fn a(self: bool) -> int32 { 1 } }\nimpl Tr for bool { fn a(self: bool) -> int32 { 2 } }\nimpl Tr for string { fn a(self: string) -> int32 { 1 } }\nimpl Tr for string { fn a(self: string) -> int32 { 2 } }\nfn main() { () }\n"),
        ("unsatisfied-bounds", "package Main\n\ntrait T1 { fn a(Self) -> int32; }\ntrait T2 { fn b(Self) -> int32; }\ntrait T3 { fn c(Self) -> int32; }\nfn need[U: T1 + T2 + T3](u: U) -> int32 { 1 }\nfn main() { let r = need(1) + need(true) + need(\"s\"); () }\n"),
        ("unknown-imports", "package Main\nimport P1\nimport P2\nimport P3\nimport P4\n\nfn main() { () }\n"),
        ("unknown-struct-pattern-fields", "package Main\n\nstruct P { x: int32 }\nfn main() { let p = P { x: 1 }; match p { P { x: a, yy: b, zz: c, ww: d, vv: e } => string_println(int32_to_string(a)) } }\n"),
        ("missing-struct-pattern-fields", "package Main\n\nstruct S { a: int32, b: int32, c: int32, d: int32, e: int32 }\nfn f(s: S) -> int32 { match s { S { c: k } => k } }\nfn main() { () }\n"),
        ("duplicate-struct-pattern-fields", "package Main\n\nstruct S { a: int32, b: int32, c: int32 }\nfn f(s: S) -> int32 { match s { S { a: x, a: y, b: z, b: w, c: u, c: v } => x } }\nfn main() { () }\n"),
        ("unknown-struct-literal-and-pattern-fields", "package Main\n\nstruct S { a: int32 }\nfn f(s: S) -> int32 { match s { S { a: x, p: y, q: z, r: w } => x } }\nfn main() { let s = S { a: 1, p: 2, q: 3, r: 4 }; string_println(int32_to_string(f(s))) }\n"),
        ("wrong-constructor-arities", "package Main\n\nenum E { A(int32), B(int32, int32), C }\nfn f(e: E) -> int32 { match e { A(x, y) => 1, B(x) => 2, C(x) => 3 } }\nfn main() { let a = A(1, 2); let b = B(1); let c = C(1); () }\n"),
    ] {
        out.push(Project { name: format!("many-diagnostics-{}", which), files: vec![("main.gom".into(), src.into())], expected_stdout: None });
    }
    out
}

/// One project per import DAG on five packages. Node 0 is Main; an edge (i, j) with i < j means
/// "package i imports package j", so every bit mask over the 10 pairs is acyclic. Only graphs in
/// which every package is reachable from Main are kept. `naming` decides which directory name a
/// node gets, so that alphabetical order agrees with (0) or opposes (1) the topological order.
/// `variant`: 0 = well-typed (prints the value the graph denotes), 1 = every leaf package has a
/// type error (diagnostic order is observable), 2 = every leaf package declares a wrong package
/// name (which fault is reported first is observable).
pub struct DagSpec {
    pub mask: u32,
    pub naming: u8,
    pub variant: u8,
    pub edges: usize,
}

pub const DAG_N: usize = 5;

pub fn dag_edges(mask: u32) -> Vec<(usize, usize)> {
    let mut v = Vec::new();
    let mut bit = 0;
    for i in 0..DAG_N {
        for j in (i + 1)..DAG_N {
            if mask & (1 << bit) != 0 {
                v.push((i, j));
            }
            bit += 1;
        }
    }
    v
}

pub fn dag_specs() -> Vec<DagSpec> {
    let mut out = Vec::new();
    for mask in 0u32..(1 << (DAG_N * (DAG_N - 1) / 2)) {
        let edges = dag_edges(mask);
        let mut reach = [false; DAG_N];
        reach[0] = true;
        for (a, b) in &edges {
            // edges are listed in ascending source order, and sources precede targets
            if reach[*a] {
                reach[*b] = true;
            }
        }
        if reach.iter().any(|r| !*r) {
            continue;
        }
        for naming in 0..2u8 {
            for variant in 0..3u8 {
                out.push(DagSpec { mask, naming, variant, edges: edges.len() });
            }
        }
    }
    out
}

pub fn dag_project(spec: &DagSpec) -> Project {
    let names: [&str; DAG_N] = if spec.naming == 0 { ["Main", "A", "B", "C", "D"] } else { ["Main", "D", "C", "B", "A"] };
    let edges = dag_edges(spec.mask);
    fn value(i: usize, edges: &[(usize, usize)]) -> i64 {
        let mut v = (i + 1) as i64;
        for (a, b) in edges {
            if *a == i {
                v += value(*b, edges);
            }
        }
        v
    }
    let mut files = Vec::new();
    for i in 0..DAG_N {
        let is_leaf = !edges.iter().any(|(a, _)| *a == i);
        let decl = if spec.variant == 2 && is_leaf && i != 0 { format!("{}x", names[i]) } else { names[i].to_string() };
        let mut s = format!("package {}\n", decl);
        for (a, b) in &edges {
            if *a == i {
                s.push_str(&format!("import {}\n", names[*b]));
            }
        }
        s.push('\n');
        let n = names[i];
        s.push_str(&format!("struct S{} {{ v: int32 }}\nenum E{} {{ K{}(int32), N{} }}\nfn id{}[T](x: T) -> T {{ x }}\n", n, n, n, n, n));
        // an inherent impl block with several methods (their order is part of the exported interface)
        s.push_str(&format!(
            "impl S{n} {{\n    fn zeta(self: S{n}) -> int32 {{ self.v }}\n    fn alpha(self: S{n}, k: int32) -> int32 {{ self.v + k }}\n    fn mid(self: S{n}) -> int32 {{ 0 }}\n    fn beta(self: S{n}) -> int32 {{ self.v - self.v }}\n}}\n",
            n = n
        ));
        let mut sum = format!("id{n}(S{n} {{ v: {k} }}).v + S{n} {{ v: 0 }}.alpha(0) + S{n} {{ v: 5 }}.beta() + S{n} {{ v: 0 }}.zeta() + S{n} {{ v: 1 }}.mid()", n = n, k = i + 1);
        for (a, b) in &edges {
            if *a == i {
                sum.push_str(&format!(" + {}::f{}()", names[*b], names[*b]));
            }
        }
        if i == 0 {
            s.push_str(&format!("fn main() {{ string_println(int32_to_string({})) }}\n", sum));
        } else if spec.variant == 1 && is_leaf {
            s.push_str(&format!("fn f{}() -> int32 {{ {} + true }}\nfn g{}() -> bool {{ {} }}\n", n, sum, n, i));
        } else {
            s.push_str(&format!("fn f{}() -> int32 {{ {} }}\n", n, sum));
        }
        let path = if i == 0 { "main.gom".to_string() } else { format!("{}/lib.gom", n) };
        files.push((path, s));
    }
    Project {
        name: format!("dag5;mask={:#05x};naming={};variant={}", spec.mask, spec.naming, spec.variant),
        files,
        expected_stdout: if spec.variant == 0 { Some(format!("{}\n", value(0, &edges))) } else { None },
    }
}

/// all DAG projects (index-stable); the tiers select by edge count
pub fn dag_projects() -> Vec<Project> {
    dag_specs().iter().map(dag_project).collect()
}

pub fn dag_in_tier(spec: &DagSpec, quick: bool) -> bool {
    if quick { spec.edges <= 4 || (spec.edges == 5 && spec.variant == 0 && spec.naming == 1) } else { true }
}
