//! Self-test of the Go model against hand-written Go snippets whose verdict under the real Go
//! compiler is known from the language specification (each entry cites the rule). There is no Go
//! toolchain in the sandbox, so this table, the 74 recorded goldens and the recorded compile error
//! of golden 058 are what binds the model to Go. `Ok(out)` = compiles and prints `out`;
//! `Reject(rule)` = `go build` rejects it, and the model must reject it under that rule.

pub enum Want {
    Ok(&'static str),
    Reject(&'static str),
    /// compiles; the run ends in a panic after printing this
    Panics(&'static str),
}

const HEAD: &str = "package main\n\nimport (\n    \"fmt\"\n)\n\nfunc p(s string) struct{} {\n    fmt.Println(s)\n    return struct{}{}\n}\n\nfunc i2s(x int32) string {\n    return fmt.Sprintf(\"%d\", x)\n}\n\n";

pub fn table() -> Vec<(&'static str, String, Want)> {
    let m = |body: &str| format!("{}func main() {{\n{}}}\n", HEAD, body);
    let with = |decls: &str, body: &str| format!("{}{}\nfunc main() {{\n{}}}\n", HEAD, decls, body);
    vec![
        // --- declarations and uses (spec: Declarations and scope; "declared and not used")
        ("valid-basic", m("    var x int32 = 1\n    p(i2s(x))\n"), Want::Ok("1\n")),
        ("unused-local", m("    var x int32 = 1\n    p(\"a\")\n"), Want::Reject("unused-var")),
        ("unused-local-assigned-only", m("    var x int32\n    x = 2\n    p(\"a\")\n"), Want::Reject("unused-var")),
        ("blank-assignment-is-a-use-of-rhs-only", m("    var x int32 = 1\n    _ = x\n    p(\"a\")\n"), Want::Ok("a\n")),
        ("redeclared-in-same-block", m("    var x int32 = 1\n    var x int32 = 2\n    p(i2s(x))\n"), Want::Reject("redeclared")),
        ("shadowing-in-inner-block-is-legal", m("    var x int32 = 1\n    if x == 1 {\n        var x int32 = 2\n        p(i2s(x))\n    }\n    p(i2s(x))\n"), Want::Ok("2\n1\n")),
        ("undefined-name", m("    p(i2s(y))\n"), Want::Reject("undefined")),
        ("use-before-declaration-in-block", m("    p(i2s(x))\n    var x int32 = 1\n    _ = x\n"), Want::Reject("undefined")),
        ("unused-import", "package main\n\nimport (\n    \"fmt\"\n)\n\nfunc main() {\n}\n".to_string(), Want::Reject("unused-import")),
        ("redeclared-function", with("func f() int32 {\n    return 1\n}\n\nfunc f() int32 {\n    return 2\n}\n", "    p(i2s(f()))\n"), Want::Reject("redeclared")),
        ("redeclared-type", with("type T struct {\n    a int32\n}\n\ntype T struct {\n    b int32\n}\n", "    p(\"a\")\n"), Want::Reject("redeclared")),
        // spec, Package initialization: "the identifier init can only be declared as a function ... with no arguments and no result parameters"; Program execution: main likewise
        ("init-with-parameters", with("func init(a int32) int32 {\n    return a\n}\n", "    p(\"a\")\n"), Want::Reject("types")),
        ("type-named-init", with("type init struct {\n    a int32\n}\n", "    p(\"a\")\n"), Want::Reject("redeclared")),
        ("type-named-main", "package main\n\nimport (\n    \"fmt\"\n)\n\ntype main struct {\n    a int32\n}\n\nfunc f() {\n    fmt.Println(\"a\")\n}\n".to_string(), Want::Reject("redeclared")),
        ("function-used-before-its-declaration-is-legal", with("func g() int32 {\n    return h()\n}\n\nfunc h() int32 {\n    return 3\n}\n", "    p(i2s(g()))\n"), Want::Ok("3\n")),
        // --- method values (spec: Method values: "x.M ... is a function value that is callable with the same arguments as a method call of x.M"; "the expression x is evaluated and saved during the evaluation of the method value; the saved copy is then used as the receiver in any calls")
        ("method-value-is-a-function-value", with("type E struct {\n    k int32\n}\n\nfunc (env E) call(p0 int32) int32 {\n    return add(env, p0)\n}\n\nfunc add(env E, x int32) int32 {\n    return env.k + x\n}\n\nfunc twice(f func(int32) int32, x int32) int32 {\n    return f(f(x))\n}\n", "    var e E = E{\n        k: 5,\n    }\n    var f func(int32) int32 = e.call\n    p(i2s(twice(f, 1)))\n"), Want::Ok("11\n")),
        ("method-value-saves-a-copy-of-the-receiver", with("type E struct {\n    k int32\n}\n\nfunc (env E) call(p0 int32) int32 {\n    return env.k + p0\n}\n", "    var e E = E{\n        k: 5,\n    }\n    var f func(int32) int32 = e.call\n    e = E{\n        k: 100,\n    }\n    p(i2s(f(1)))\n    p(i2s(e.k))\n"), Want::Ok("6\n100\n")),
        // spec, Go statements: "The expression must be a function or method call ... The function value and parameters to the call are evaluated as usual in the calling goroutine"
        ("go-of-a-function-variable-holding-a-method-value", with("type C struct {\n    v int32\n}\n\ntype E struct {\n    r *C\n}\n\nfunc (env E) call() struct{} {\n    env.r.v = 7\n    p(\"g\")\n    return struct{}{}\n}\n", "    var c *C = &C{\n        v: 0,\n    }\n    var e E = E{\n        r: c,\n    }\n    var f func() struct{} = e.call\n    go f()\n    for {\n        if c.v == 7 {\n            break\n        }\n    }\n    p(i2s(c.v))\n"), Want::Ok("g\n7\n")),
        ("go-of-a-method-call", with("type C struct {\n    v int32\n}\n\ntype E struct {\n    r *C\n}\n\nfunc (env E) call() struct{} {\n    env.r.v = 7\n    return struct{}{}\n}\n", "    var c *C = &C{\n        v: 0,\n    }\n    var e E = E{\n        r: c,\n    }\n    go e.call()\n    for {\n        if c.v == 7 {\n            break\n        }\n    }\n    p(i2s(c.v))\n"), Want::Ok("7\n")),
        ("go-of-a-conversion", m("    var x int32 = 1\n    go int64(x)\n    p(\"a\")\n"), Want::Reject("go-stmt")),
        ("method-value-at-the-wrong-function-type", with("type E struct {\n    k int32\n}\n\nfunc (env E) call(p0 int32) int32 {\n    return env.k + p0\n}\n", "    var e E = E{\n        k: 5,\n    }\n    var f func(string) int32 = e.call\n    _ = f\n    p(\"a\")\n"), Want::Reject("assign")),
        ("method-with-a-result-called-directly", with("type E struct {\n    k int32\n}\n\nfunc (env E) call(p0 int32) int32 {\n    return env.k + p0\n}\n", "    var e E = E{\n        k: 5,\n    }\n    p(i2s(e.call(2)))\n"), Want::Ok("7\n")),
        // --- assignability (spec: Assignability)
        ("assign-string-to-int", m("    var x int32 = \"s\"\n    p(i2s(x))\n"), Want::Reject("assign")),
        ("assign-int32-var-to-int64", m("    var x int32 = 1\n    var y int64 = x\n    _ = y\n"), Want::Reject("assign")),
        ("untyped-constant-to-any-numeric", m("    var x int8 = 100\n    var y float64 = 1\n    _ = x\n    _ = y\n    p(\"ok\")\n"), Want::Ok("ok\n")),
        ("constant-overflows-int8", m("    var x int8 = 128\n    _ = x\n"), Want::Reject("const-overflow")),
        ("constant-overflows-uint8-negative", m("    var x uint8 = -1\n    _ = x\n"), Want::Reject("const-overflow")),
        ("constant-expression-overflow", m("    var x int32 = 2147483647 + 1\n    _ = x\n"), Want::Reject("const-overflow")),
        ("runtime-overflow-wraps", m("    var x int32 = 2147483647\n    var y int32 = x + 1\n    p(i2s(y))\n"), Want::Ok("-2147483648\n")),
        ("float-constant-to-int-var", m("    var x int32 = 1.5\n    _ = x\n"), Want::Reject("const-overflow")),
        ("whole-float-constant-to-int-var-is-legal", m("    var x int32 = 2.0\n    p(i2s(x))\n"), Want::Ok("2\n")),
        // --- operators (spec: Operators; Arithmetic operators; Comparison operators)
        ("mismatched-operand-types", m("    var x int32 = 1\n    var y int64 = 2\n    var z int64 = x + y\n    _ = z\n"), Want::Reject("operand")),
        ("bool-plus-bool", m("    var a bool = true\n    var b bool = a + a\n    _ = b\n"), Want::Reject("operand")),
        ("string-concat-and-compare", m("    var a string = \"x\"\n    var b string = a + \"y\"\n    if b < \"xz\" {\n        p(b)\n    }\n"), Want::Ok("xy\n")),
        ("not-on-int", m("    var a int32 = 1\n    var b bool = !a\n    _ = b\n"), Want::Reject("operand")),
        ("integer-division-by-constant-zero", m("    var a int32 = 1\n    var b int32 = a / 0\n    _ = b\n"), Want::Reject("const-div0")),
        ("constant-division-by-zero", m("    var b int32 = 1 / 0\n    _ = b\n"), Want::Reject("const-div0")),
        ("float-variable-divided-by-constant-zero-is-legal", m("    var a float64 = 1\n    var b float64 = a / 0\n    p(fmt.Sprintf(\"%v\", b))\n"), Want::Ok("+Inf\n")),
        ("integer-division-by-zero-at-run-time-panics", m("    var a int32 = 1\n    var z int32 = 0\n    p(\"before\")\n    var b int32 = a / z\n    p(i2s(b))\n"), Want::Panics("before\n")),
        ("constant-integer-division-truncates", m("    var a float64 = 7 / 2\n    p(fmt.Sprintf(\"%v\", a))\n"), Want::Ok("3\n")),
        ("comparing-slices", m("    var a []int32 = nil\n    var b []int32 = nil\n    if a == b {\n        p(\"eq\")\n    }\n"), Want::Reject("operand")),
        ("comparing-structs-is-legal", with("type T struct {\n    a int32\n}\n", "    var x T = T{a: 1}\n    var y T = T{a: 1}\n    if x == y {\n        p(\"eq\")\n    }\n"), Want::Ok("eq\n")),
        // spec, Comparison operators: "A comparison of two interface values with identical dynamic types
        // causes a run-time panic if that type is not comparable"; struct values are comparable iff all
        // their field types are
        ("comparing-structs-with-a-slice-field", with("type T struct {\n    a []int32\n}\n", "    var x T = T{a: nil}\n    var y T = T{a: nil}\n    if x == y {\n        p(\"eq\")\n    }\n"), Want::Reject("operand")),
        ("comparing-interfaces-holding-an-uncomparable-struct-panics", with("type E interface {\n    isE()\n}\n\ntype A struct {\n    _0 []int32\n}\n\nfunc (_ A) isE() {}\n", "    var x E = A{_0: nil}\n    var y E = A{_0: nil}\n    p(\"before\")\n    if x == y {\n        p(\"eq\")\n    }\n"), Want::Panics("before\n")),
        ("comparing-interfaces-of-different-dynamic-types-is-false", with("type E interface {\n    isE()\n}\n\ntype A struct {\n    _0 []int32\n}\n\nfunc (_ A) isE() {}\n\ntype B struct {}\n\nfunc (_ B) isE() {}\n", "    var x E = A{_0: nil}\n    var y E = B{}\n    if x == y {\n        p(\"eq\")\n    } else {\n        p(\"ne\")\n    }\n"), Want::Ok("ne\n")),
        ("comparing-interfaces-holding-comparable-structs", with("type E interface {\n    isE()\n}\n\ntype A struct {\n    _0 int32\n}\n\nfunc (_ A) isE() {}\n", "    var x E = A{_0: 1}\n    var y E = A{_0: 1}\n    var z E = A{_0: 2}\n    if x == y {\n        p(\"eq\")\n    }\n    if x == z {\n        p(\"eq2\")\n    }\n"), Want::Ok("eq\n")),
        ("comparing-funcs", with("func f() int32 {\n    return 1\n}\n", "    if f == f {\n        p(\"eq\")\n    }\n"), Want::Reject("operand")),
        // --- string literal escapes (spec: Rune literals, String literals)
        ("unicode-escapes-denote-utf8", m("    p(\"a\\u00e9b\\U0001F642c\\ufeffd\")\n"), Want::Ok("a\u{e9}b\u{1F642}c\u{feff}d\n")),
        ("octal-and-hex-escapes-denote-bytes", m("    p(\"\\101\\x42\")\n"), Want::Ok("AB\n")),
        ("surrogate-half-escape-is-illegal", m("    p(\"\\ud800\")\n"), Want::Reject("syntax")),
        ("octal-escape-above-255-is-illegal", m("    p(\"\\400\")\n"), Want::Reject("syntax")),
        // --- conversions to string (spec: Conversions to and from a string type)
        ("byte-slice-to-string", m("    var b []uint8\n    b = append(b, 104)\n    b = append(b, 195)\n    b = append(b, 169)\n    p(string(b))\n"), Want::Ok("h\u{e9}\n")),
        ("byte-to-string-is-a-code-point", m("    var c uint8 = 233\n    p(string(c))\n"), Want::Ok("\u{e9}\n")),
        ("indexing-a-string-constant-yields-a-byte", m("    var n uint8 = 11\n    var b []uint8\n    b = append(b, \"0123456789abcdef\"[n])\n    p(string(b))\n"), Want::Ok("b\n")),
        ("loop-carried-accumulator", m("    var out []uint8\n    var i int32 = 0\n    for {\n        if i >= 3 {\n            break\n        }\n        out = append(out, 97)\n        i = i + 1\n    }\n    p(string(out))\n"), Want::Ok("aaa\n")),
        // --- calls and returns (spec: Calls; Return statements; Terminating statements)
        ("too-many-arguments", with("func f(a int32) int32 {\n    return a\n}\n", "    p(i2s(f(1, 2)))\n"), Want::Reject("call")),
        ("too-few-arguments", with("func f(a int32, b int32) int32 {\n    return a + b\n}\n", "    p(i2s(f(1)))\n"), Want::Reject("call")),
        ("wrong-argument-type", with("func f(a int32) int32 {\n    return a\n}\n", "    p(i2s(f(\"s\")))\n"), Want::Reject("assign")),
        ("calling-a-non-function", m("    var a int32 = 1\n    p(i2s(a()))\n"), Want::Reject("call")),
        ("missing-return", with("func f(a bool) int32 {\n    if a {\n        return 1\n    }\n}\n", "    p(i2s(f(true)))\n"), Want::Reject("missing-return")),
        ("if-else-both-returning-terminates", with("func f(a bool) int32 {\n    if a {\n        return 1\n    } else {\n        return 2\n    }\n}\n", "    p(i2s(f(false)))\n"), Want::Ok("2\n")),
        ("switch-without-default-does-not-terminate", with("func f(a int32) int32 {\n    switch a {\n    case 1:\n        return 1\n    }\n}\n", "    p(i2s(f(1)))\n"), Want::Reject("missing-return")),
        ("switch-with-default-terminates", with("func f(a int32) int32 {\n    switch a {\n    case 1:\n        return 1\n    default:\n        return 2\n    }\n}\n", "    p(i2s(f(5)))\n"), Want::Ok("2\n")),
        ("infinite-for-terminates", with("func f() int32 {\n    for {\n    }\n}\n", "    p(\"a\")\n    _ = f\n"), Want::Ok("a\n")),
        ("return-wrong-type", with("func f() int32 {\n    return \"s\"\n}\n", "    p(i2s(f()))\n"), Want::Reject("assign")),
        ("return-value-from-void", with("func f() {\n    return 1\n}\n", "    f()\n"), Want::Reject("return")),
        ("unused-result-of-pure-expression", m("    var a int32 = 1\n    a + 1\n"), Want::Reject("expr-stmt")),
        ("call-as-statement-is-legal", with("func f() int32 {\n    p(\"in\")\n    return 1\n}\n", "    f()\n"), Want::Ok("in\n")),
        // --- composite literals and selectors (spec: Composite literals; Selectors)
        ("unknown-field-in-literal", with("type T struct {\n    a int32\n}\n", "    var x T = T{b: 1}\n    _ = x\n"), Want::Reject("composite")),
        ("duplicate-field-in-literal", with("type T struct {\n    a int32\n}\n", "    var x T = T{a: 1, a: 2}\n    _ = x\n"), Want::Reject("composite")),
        ("missing-fields-are-zero", with("type T struct {\n    a int32\n    b string\n}\n", "    var x T = T{a: 1}\n    p(i2s(x.a) + \"[\" + x.b + \"]\")\n"), Want::Ok("1[]\n")),
        ("wrong-field-type-in-literal", with("type T struct {\n    a int32\n}\n", "    var x T = T{a: \"s\"}\n    _ = x\n"), Want::Reject("assign")),
        ("unknown-selector", with("type T struct {\n    a int32\n}\n", "    var x T = T{a: 1}\n    p(i2s(x.zz))\n"), Want::Reject("selector")),
        ("array-literal-too-long", m("    var a [2]int32 = [2]int32{1, 2, 3}\n    _ = a\n"), Want::Reject("composite")),
        ("constant-index-out-of-range", m("    var a [2]int32 = [2]int32{1, 2}\n    p(i2s(a[2]))\n"), Want::Reject("index")),
        ("run-time-index-out-of-range-panics", m("    var a [2]int32 = [2]int32{1, 2}\n    var i int32 = 2\n    p(\"before\")\n    p(i2s(a[i]))\n"), Want::Panics("before\n")),
        ("arrays-are-values", m("    var a [2]int32 = [2]int32{1, 2}\n    var b [2]int32 = a\n    b[0] = 9\n    p(i2s(a[0]) + i2s(b[0]))\n"), Want::Ok("19\n")),
        ("slices-alias", m("    var a []int32 = []int32{1, 2}\n    var b []int32 = a\n    b[0] = 9\n    p(i2s(a[0]))\n"), Want::Ok("9\n")),
        // --- interfaces, type switches and assertions (spec: Type assertions; Type switches)
        ("type-switch-on-non-interface", m("    var a int32 = 1\n    switch a.(type) {\n    case int32:\n        p(\"i\")\n    }\n"), Want::Reject("type-switch")),
        ("type-switch-unused-binding", with("type I interface {\n    isI()\n}\n\ntype A struct {}\n\nfunc (_ A) isI() {}\n", "    var v I = A{}\n    switch x := v.(type) {\n    case A:\n        p(\"a\")\n    }\n"), Want::Reject("unused-var")),
        ("type-switch-binding-used", with("type I interface {\n    isI()\n}\n\ntype A struct {\n    k int32\n}\n\nfunc (_ A) isI() {}\n", "    var v I = A{k: 4}\n    switch x := v.(type) {\n    case A:\n        p(i2s(x.k))\n    }\n"), Want::Ok("4\n")),
        ("impossible-type-switch-case", with("type I interface {\n    isI()\n}\n\ntype A struct {}\n\nfunc (_ A) isI() {}\n\ntype B struct {}\n", "    var v I = A{}\n    switch v.(type) {\n    case B:\n        p(\"b\")\n    }\n"), Want::Reject("type-switch")),
        ("assertion-on-any-panics-on-mismatch", m("    var v any = 1\n    p(\"before\")\n    var w int32 = v.(int32)\n    p(i2s(w))\n"), Want::Panics("before\n")),
        ("assertion-on-any-with-matching-dynamic-type", m("    var k int32 = 1\n    var v any = k\n    var w int32 = v.(int32)\n    p(i2s(w))\n"), Want::Ok("1\n")),
        ("struct-not-implementing-interface", with("type I interface {\n    isI()\n}\n\ntype B struct {}\n", "    var v I = B{}\n    _ = v\n"), Want::Reject("assign")),
        ("duplicate-switch-case-constant", m("    var a int32 = 1\n    switch a {\n    case 1:\n        p(\"x\")\n    case 1:\n        p(\"y\")\n    }\n"), Want::Reject("switch-dup")),
        ("switch-case-type-mismatch", m("    var a int32 = 1\n    switch a {\n    case \"s\":\n        p(\"x\")\n    }\n"), Want::Reject("assign")),
        // --- pointers and closures as the runtime helpers use them
        ("pointer-sharing", with("type R struct {\n    value int32\n}\n", "    var r *R = &R{value: 1}\n    var s *R = r\n    s.value = 5\n    p(i2s(r.value))\n"), Want::Ok("5\n")),
        ("sprintf-d-with-a-float-prints-the-verb-error", m("    var f float64 = 1.5\n    p(fmt.Sprintf(\"%d\", f))\n"), Want::Ok("%!d(float64=1.5)\n")),
        ("sprintf-q-escapes", m("    p(fmt.Sprintf(\"%q\", \"a\\\"b\\n\"))\n"), Want::Ok("\"a\\\"b\\n\"\n")),
        // --- append and slice expressions (spec: Appending to and copying slices; Slice expressions)
        ("append-shares-spare-capacity", m("    var a []int32 = []int32{1, 2, 3}\n    var b []int32 = append(a, 4)\n    var c []int32 = append(b[:3], 5)\n    p(i2s(b[3]) + i2s(c[3]))\n"), Want::Ok("55\n")),
        ("append-to-a-clipped-slice-copies", m("    var a []int32 = []int32{1, 2, 3}\n    var b []int32 = append(a, 4)\n    var c []int32 = append(b[:3:3], 5)\n    p(i2s(b[3]) + i2s(c[3]))\n"), Want::Ok("45\n")),
        ("full-slice-expression-len-len", m("    var a []int32 = nil\n    var b []int32 = append(a[:len(a):len(a)], 1)\n    var c []int32 = append(b[:len(b):len(b)], 2)\n    var d []int32 = append(b[:len(b):len(b)], 3)\n    p(i2s(c[1]) + i2s(d[1]) + i2s(int32(len(d))))\n"), Want::Ok("232\n")),
        ("slice-bounds-out-of-range-panics", m("    var a []int32 = []int32{1, 2}\n    var n int32 = 3\n    p(\"before\")\n    var b []int32 = a[:n]\n    _ = b\n"), Want::Panics("before\n")),
        ("break-outside-loop", m("    break\n"), Want::Reject("break")),
    ]
}
