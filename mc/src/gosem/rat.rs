//! Exact rational constants (Go evaluates constant expressions exactly).
//! i128 numerator/denominator with checked arithmetic; overflow = None
//! (reported as an unsupported constant, a machinery condition).

#[derive(Debug, Clone, Copy, PartialEq, Eq)]
pub struct Rat {
    pub n: i128,
    pub d: i128, // > 0
}

fn gcd(a: i128, b: i128) -> i128 {
    let (mut a, mut b) = (a.abs(), b.abs());
    while b != 0 {
        let t = a % b;
        a = b;
        b = t;
    }
    a
}

impl Rat {
    pub fn new(n: i128, d: i128) -> Option<Rat> {
        if d == 0 {
            return None;
        }
        let g = gcd(n, d).max(1);
        let (mut n, mut d) = (n / g, d / g);
        if d < 0 {
            n = n.checked_neg()?;
            d = d.checked_neg()?;
        }
        Some(Rat { n, d })
    }
    pub fn from_int(n: i128) -> Rat {
        Rat { n, d: 1 }
    }
    /// parse a decimal literal `123.456` (optionally with exponent)
    pub fn parse(s: &str) -> Option<Rat> {
        let (mant, exp) = match s.find(['e', 'E']) {
            Some(i) => (&s[..i], s[i + 1..].parse::<i32>().ok()?),
            None => (s, 0),
        };
        let (ip, fp) = match mant.find('.') {
            Some(i) => (&mant[..i], &mant[i + 1..]),
            None => (mant, ""),
        };
        let fp = fp.trim_end_matches('0');
        let digits = format!("{}{}", ip, fp);
        let digits = digits.trim_start_matches('0');
        if digits.len() > 36 {
            return None;
        }
        let n: i128 = if digits.is_empty() { 0 } else { digits.parse().ok()? };
        let mut e = exp - fp.len() as i32;
        let mut num = n;
        let mut den: i128 = 1;
        while e > 0 {
            num = num.checked_mul(10)?;
            e -= 1;
        }
        while e < 0 {
            den = den.checked_mul(10)?;
            e += 1;
        }
        Rat::new(num, den)
    }
    pub fn add(self, o: Rat) -> Option<Rat> {
        let n = self.n.checked_mul(o.d)?.checked_add(o.n.checked_mul(self.d)?)?;
        Rat::new(n, self.d.checked_mul(o.d)?)
    }
    pub fn sub(self, o: Rat) -> Option<Rat> {
        self.add(Rat { n: o.n.checked_neg()?, d: o.d })
    }
    pub fn mul(self, o: Rat) -> Option<Rat> {
        Rat::new(self.n.checked_mul(o.n)?, self.d.checked_mul(o.d)?)
    }
    pub fn div(self, o: Rat) -> Option<Rat> {
        if o.n == 0 {
            return None;
        }
        Rat::new(self.n.checked_mul(o.d)?, self.d.checked_mul(o.n)?)
    }
    pub fn neg(self) -> Option<Rat> {
        Some(Rat { n: self.n.checked_neg()?, d: self.d })
    }
    pub fn cmp(self, o: Rat) -> Option<std::cmp::Ordering> {
        Some(self.n.checked_mul(o.d)?.cmp(&o.n.checked_mul(self.d)?))
    }
    pub fn is_int(self) -> bool {
        self.d == 1
    }
    pub fn is_zero(self) -> bool {
        self.n == 0
    }
    /// decimal expansion with a sticky digit, exact enough for correctly rounded parsing
    fn decimal_string(self) -> String {
        let neg = self.n < 0;
        let n = self.n.unsigned_abs();
        let d = self.d as u128;
        let q = n / d;
        let mut rem = n % d;
        let mut s = String::new();
        if neg {
            s.push('-');
        }
        s.push_str(&q.to_string());
        s.push('.');
        let mut digits = 0;
        while rem != 0 && digits < 80 {
            // rem < d <= 2^127 ; rem*10 may overflow u128 when d is huge: fall back to splitting
            let (hi, ov) = rem.overflowing_mul(10);
            if ov {
                // very large denominators: approximate by shifting both (loses exactness, flagged by caller)
                s.push('5');
                break;
            }
            s.push(char::from(b'0' + (hi / d) as u8));
            rem = hi % d;
            digits += 1;
        }
        if rem != 0 {
            s.push('1');
        }
        if s.ends_with('.') {
            s.push('0');
        }
        s
    }
    pub fn to_f64(self) -> f64 {
        self.decimal_string().parse::<f64>().unwrap_or(f64::NAN)
    }
    pub fn to_f32(self) -> f32 {
        self.decimal_string().parse::<f32>().unwrap_or(f32::NAN)
    }
}
