//! Lexer + parser for the Go subset that `pprint/go_pprint.rs` can print.
//! Works on the emitted *text*; uses Go's own precedence and semicolon
//! insertion rules. Anything outside the subset is `Unsupported` (machinery),
//! anything that Go's grammar rejects is `Syntax` (a Go compile error).

use std::fmt;

#[derive(Debug, Clone, PartialEq, Eq, Hash, PartialOrd, Ord, Copy)]
pub enum IntKind {
    I8,
    I16,
    I32,
    I64,
    U8,
    U16,
    U32,
    U64,
    Int, // Go's `int` (64-bit), result of len()
}

impl IntKind {
    pub fn bits(self) -> u32 {
        match self {
            IntKind::I8 | IntKind::U8 => 8,
            IntKind::I16 | IntKind::U16 => 16,
            IntKind::I32 | IntKind::U32 => 32,
            IntKind::I64 | IntKind::U64 | IntKind::Int => 64,
        }
    }
    pub fn signed(self) -> bool {
        matches!(
            self,
            IntKind::I8 | IntKind::I16 | IntKind::I32 | IntKind::I64 | IntKind::Int
        )
    }
    pub fn min_val(self) -> i128 {
        if self.signed() {
            -(1i128 << (self.bits() - 1))
        } else {
            0
        }
    }
    pub fn max_val(self) -> i128 {
        if self.signed() {
            (1i128 << (self.bits() - 1)) - 1
        } else {
            (1i128 << self.bits()) - 1
        }
    }
    pub fn wrap(self, v: i128) -> i128 {
        let m = 1i128 << self.bits();
        let mut r = v.rem_euclid(m);
        if self.signed() && r > self.max_val() {
            r -= m;
        }
        r
    }
    pub fn name(self) -> &'static str {
        match self {
            IntKind::I8 => "int8",
            IntKind::I16 => "int16",
            IntKind::I32 => "int32",
            IntKind::I64 => "int64",
            IntKind::U8 => "uint8",
            IntKind::U16 => "uint16",
            IntKind::U32 => "uint32",
            IntKind::U64 => "uint64",
            IntKind::Int => "int",
        }
    }
}

#[derive(Debug, Clone, PartialEq, Eq, Hash)]
pub enum Ty {
    EmptyStruct, // struct{}
    Bool,
    Int(IntKind),
    F32,
    F64,
    Str,
    Named(String), // declared struct / interface / alias / `any`
    Ptr(Box<Ty>),
    Array(u64, Box<Ty>),
    Slice(Box<Ty>),
    Func(Vec<Ty>, Option<Box<Ty>>),
}

impl fmt::Display for Ty {
    fn fmt(&self, f: &mut fmt::Formatter<'_>) -> fmt::Result {
        match self {
            Ty::EmptyStruct => write!(f, "struct{{}}"),
            Ty::Bool => write!(f, "bool"),
            Ty::Int(k) => write!(f, "{}", k.name()),
            Ty::F32 => write!(f, "float32"),
            Ty::F64 => write!(f, "float64"),
            Ty::Str => write!(f, "string"),
            Ty::Named(n) => write!(f, "{}", n),
            Ty::Ptr(t) => write!(f, "*{}", t),
            Ty::Array(n, t) => write!(f, "[{}]{}", n, t),
            Ty::Slice(t) => write!(f, "[]{}", t),
            Ty::Func(ps, r) => {
                write!(f, "func(")?;
                for (i, p) in ps.iter().enumerate() {
                    if i > 0 {
                        write!(f, ", ")?;
                    }
                    write!(f, "{}", p)?;
                }
                write!(f, ")")?;
                if let Some(r) = r {
                    write!(f, " {}", r)?;
                }
                Ok(())
            }
        }
    }
}

/// A type as written in the source: identifiers are unresolved (they may be
/// shadowed), resolution happens in the checker.
#[derive(Debug, Clone, PartialEq)]
pub enum TyExpr {
    EmptyStruct,
    Name(String),
    Qualified(String, String),
    Ptr(Box<TyExpr>),
    Array(String, Box<TyExpr>), // length as written
    Slice(Box<TyExpr>),
    Func(Vec<TyExpr>, Option<Box<TyExpr>>),
}

#[derive(Debug, Clone, Copy, PartialEq, Eq, Hash)]
pub enum BinOp {
    Add,
    Sub,
    Mul,
    Div,
    Rem,
    Lt,
    Gt,
    Le,
    Ge,
    Eq,
    Ne,
    And,
    Or,
}

impl BinOp {
    pub fn sym(self) -> &'static str {
        match self {
            BinOp::Add => "+",
            BinOp::Sub => "-",
            BinOp::Mul => "*",
            BinOp::Div => "/",
            BinOp::Rem => "%",
            BinOp::Lt => "<",
            BinOp::Gt => ">",
            BinOp::Le => "<=",
            BinOp::Ge => ">=",
            BinOp::Eq => "==",
            BinOp::Ne => "!=",
            BinOp::And => "&&",
            BinOp::Or => "||",
        }
    }
    fn prec(self) -> u8 {
        match self {
            BinOp::Or => 1,
            BinOp::And => 2,
            BinOp::Eq | BinOp::Ne | BinOp::Lt | BinOp::Le | BinOp::Gt | BinOp::Ge => 3,
            BinOp::Add | BinOp::Sub => 4,
            BinOp::Mul | BinOp::Div | BinOp::Rem => 5,
        }
    }
}

#[derive(Debug, Clone, Copy, PartialEq, Eq)]
pub enum UnOp {
    Neg,
    Not,
    Addr,
    Deref,
}

pub type Pos = u32; // line number (1-based)

#[derive(Debug, Clone)]
pub struct Expr {
    pub kind: ExprKind,
    pub line: Pos,
    /// filled in by the checker: the (final) type of this expression
    pub ty: Option<Ty>,
}

#[derive(Debug, Clone)]
pub enum ExprKind {
    Nil,
    UnitLit, // struct{}{}
    Ident(String),
    Qualified(String, String), // fmt.Sprintf
    Bool(bool),                // only after resolution: `true`/`false` are identifiers in Go
    Int(String),
    Float(String),
    Str(Vec<u8>),
    Call(Box<Expr>, Vec<Expr>),
    Unary(UnOp, Box<Expr>),
    Binary(BinOp, Box<Expr>, Box<Expr>),
    Selector(Box<Expr>, String),
    Index(Box<Expr>, Box<Expr>),
    /// `a[lo:hi]` / `a[lo:hi:max]` (each bound optional, `max` only in the three-index form)
    SliceExpr(Box<Expr>, Option<Box<Expr>>, Option<Box<Expr>>, Option<Box<Expr>>),
    Assert(Box<Expr>, TyExpr),
    TypeSwitchGuard(Box<Expr>), // e.(type), only legal in switch headers
    Composite(TyExpr, Vec<(Option<String>, Expr)>), // T{f: v} / [N]T{..} / []T{..}
    Paren(Box<Expr>),
    /// inserted by the checker: implicit conversion of a concrete value to an interface type
    ToIface(Box<Expr>, Ty),
    /// inserted by the checker: conversion T(x)
    Convert(Ty, Box<Expr>),
    /// inserted by the checker: a constant folded at compile time
    ConstInt(i128, Ty),
    ConstFloat(f64, Ty),
    ConstStr(Vec<u8>),
    ConstBool(bool),
    /// inserted by the checker: resolved references
    Local(String),
    Global(String),
    Builtin(String),
}

#[derive(Debug, Clone)]
pub struct Block {
    pub stmts: Vec<Stmt>,
}

#[derive(Debug, Clone)]
pub struct Stmt {
    pub kind: StmtKind,
    pub line: Pos,
}

#[derive(Debug, Clone)]
pub enum StmtKind {
    Expr(Expr),
    Go(Expr),
    VarDecl(String, TyExpr, Option<Expr>),
    Assign(Expr, Expr), // lhs = rhs  (lhs: ident, selector, *p, index)
    Return(Option<Expr>),
    If(Expr, Block, Option<Block>),
    For(Block),
    Break,
    Switch(Expr, Vec<(Expr, Block)>, Option<Block>),
    TypeSwitch(Option<String>, Expr, Vec<(TyExpr, Block)>, Option<Block>),
    Block(Block),
}

#[derive(Debug, Clone)]
pub struct Param {
    pub name: String,
    pub ty: TyExpr,
}

#[derive(Debug, Clone)]
pub struct FuncDecl {
    pub name: String,
    pub recv: Option<Param>,
    pub params: Vec<Param>,
    pub ret: Option<TyExpr>,
    pub body: Block,
    pub line: Pos,
}

#[derive(Debug, Clone)]
pub struct MethodSig {
    pub name: String,
    pub params: Vec<Param>,
    pub ret: Option<TyExpr>,
}

#[derive(Debug, Clone)]
pub enum Item {
    Interface {
        name: String,
        methods: Vec<MethodSig>,
        line: Pos,
    },
    Struct {
        name: String,
        fields: Vec<(String, TyExpr)>,
        line: Pos,
    },
    Alias {
        name: String,
        ty: TyExpr,
        line: Pos,
    },
    Func(FuncDecl),
}

#[derive(Debug, Clone)]
pub struct Import {
    pub alias: Option<String>,
    pub path: String,
    pub line: Pos,
}

#[derive(Debug, Clone)]
pub struct File {
    pub package: String,
    pub imports: Vec<Import>,
    pub items: Vec<Item>,
}

#[derive(Debug, Clone, PartialEq)]
pub enum ParseError {
    /// Go would reject this text (syntax error)
    Syntax { line: Pos, msg: String },
    /// Valid Go perhaps, but outside the modelled subset: machinery error
    Unsupported { line: Pos, msg: String },
}

// ---------------------------------------------------------------- lexer

#[derive(Debug, Clone, PartialEq)]
enum Tok {
    Ident(String),
    Int(String),
    Float(String),
    Str(Vec<u8>),
    Kw(&'static str),
    Op(&'static str),
    Semi, // explicit or inserted
    Eof,
}

const KEYWORDS: [&str; 25] = [
    "break",
    "case",
    "chan",
    "const",
    "continue",
    "default",
    "defer",
    "else",
    "fallthrough",
    "for",
    "func",
    "go",
    "goto",
    "if",
    "import",
    "interface",
    "map",
    "package",
    "range",
    "return",
    "select",
    "struct",
    "switch",
    "type",
    "var",
];

pub fn is_go_keyword(s: &str) -> bool {
    KEYWORDS.contains(&s)
}

const OPS: [&str; 30] = [
    ":=", "==", "!=", "<=", ">=", "&&", "||", "<-", "++", "--", "+", "-", "*", "/", "%", "<", ">",
    "=", "!", "&", "|", "(", ")", "[", "]", "{", "}", ",", ".", ":",
];

fn lex(src: &str) -> Result<Vec<(Tok, Pos)>, ParseError> {
    let b = src.as_bytes();
    let mut i = 0usize;
    let mut line: Pos = 1;
    let mut out: Vec<(Tok, Pos)> = Vec::new();
    let needs_semi = |t: &Tok| -> bool {
        match t {
            Tok::Ident(_) | Tok::Int(_) | Tok::Float(_) | Tok::Str(_) => true,
            Tok::Kw(k) => matches!(*k, "break" | "continue" | "fallthrough" | "return"),
            Tok::Op(o) => matches!(*o, "++" | "--" | ")" | "]" | "}"),
            _ => false,
        }
    };
    while i < b.len() {
        let c = b[i];
        if c == b'\n' {
            if let Some((t, _)) = out.last() {
                if needs_semi(t) {
                    out.push((Tok::Semi, line));
                }
            }
            line += 1;
            i += 1;
            continue;
        }
        if c == b' ' || c == b'\t' || c == b'\r' {
            i += 1;
            continue;
        }
        if c == b'/' && i + 1 < b.len() && b[i + 1] == b'/' {
            while i < b.len() && b[i] != b'\n' {
                i += 1;
            }
            continue;
        }
        if c == b'/' && i + 1 < b.len() && b[i + 1] == b'*' {
            return Err(ParseError::Unsupported {
                line,
                msg: "block comment".into(),
            });
        }
        if c.is_ascii_alphabetic() || c == b'_' || c >= 0x80 {
            let start = i;
            while i < b.len() && (b[i].is_ascii_alphanumeric() || b[i] == b'_' || b[i] >= 0x80) {
                i += 1;
            }
            let s = &src[start..i];
            if !s.is_ascii() {
                // Go identifiers may contain unicode letters; the printer never emits them raw
                // except through unescaped names. Check letters.
                if !s.chars().all(|ch| ch.is_alphanumeric() || ch == '_') {
                    return Err(ParseError::Syntax {
                        line,
                        msg: format!("invalid character in identifier {:?}", s),
                    });
                }
            }
            if let Some(k) = KEYWORDS.iter().find(|k| **k == s) {
                out.push((Tok::Kw(k), line));
            } else {
                out.push((Tok::Ident(s.to_string()), line));
            }
            continue;
        }
        if c.is_ascii_digit() {
            let start = i;
            while i < b.len() && (b[i].is_ascii_digit() || b[i] == b'_') {
                i += 1;
            }
            let mut is_float = false;
            if i < b.len() && b[i] == b'.' && i + 1 < b.len() && b[i + 1].is_ascii_digit() {
                is_float = true;
                i += 1;
                while i < b.len() && b[i].is_ascii_digit() {
                    i += 1;
                }
            } else if i < b.len() && b[i] == b'.' {
                // "1." is a valid Go float literal
                is_float = true;
                i += 1;
            }
            if i < b.len() && (b[i] == b'e' || b[i] == b'E') {
                let save = i;
                i += 1;
                if i < b.len() && (b[i] == b'+' || b[i] == b'-') {
                    i += 1;
                }
                if i < b.len() && b[i].is_ascii_digit() {
                    is_float = true;
                    while i < b.len() && b[i].is_ascii_digit() {
                        i += 1;
                    }
                } else {
                    i = save;
                }
            }
            let s = &src[start..i];
            if i < b.len() && (b[i].is_ascii_alphabetic()) {
                return Err(ParseError::Syntax {
                    line,
                    msg: format!("invalid number literal near {:?}", &src[start..(i + 1)]),
                });
            }
            if !is_float && s.len() > 1 && s.starts_with('0') {
                // leading zero = octal in Go; digits 8/9 are errors, others change the value
                return Err(ParseError::Unsupported {
                    line,
                    msg: format!("octal-looking literal {}", s),
                });
            }
            if is_float {
                out.push((Tok::Float(s.to_string()), line));
            } else {
                out.push((Tok::Int(s.to_string()), line));
            }
            continue;
        }
        if c == b'"' {
            i += 1;
            let mut v: Vec<u8> = Vec::new();
            loop {
                if i >= b.len() || b[i] == b'\n' {
                    return Err(ParseError::Syntax {
                        line,
                        msg: "string literal not terminated".into(),
                    });
                }
                let ch = b[i];
                if ch == b'"' {
                    i += 1;
                    break;
                }
                if ch == b'\\' {
                    i += 1;
                    if i >= b.len() {
                        return Err(ParseError::Syntax {
                            line,
                            msg: "escape at end".into(),
                        });
                    }
                    let e = b[i];
                    i += 1;
                    match e {
                        b'n' => v.push(b'\n'),
                        b'r' => v.push(b'\r'),
                        b't' => v.push(b'\t'),
                        b'\\' => v.push(b'\\'),
                        b'"' => v.push(b'"'),
                        b'a' => v.push(7),
                        b'b' => v.push(8),
                        b'f' => v.push(12),
                        b'v' => v.push(11),
                        b'x' => {
                            // \xNN: exactly two hex digits, one byte
                            if i + 1 >= b.len() || !b[i].is_ascii_hexdigit() || !b[i + 1].is_ascii_hexdigit() {
                                return Err(ParseError::Syntax { line, msg: "invalid \\x escape".into() });
                            }
                            let hv = u8::from_str_radix(&src[i..i + 2], 16).unwrap();
                            v.push(hv);
                            i += 2;
                        }
                        b'u' | b'U' => {
                            // \uNNNN / \UNNNNNNNN: exactly 4 / 8 hex digits, a valid code point
                            // (no surrogate halves), encoded as UTF-8 (spec: Rune literals)
                            let n = if e == b'u' { 4 } else { 8 };
                            if i + n > b.len() || !b[i..i + n].iter().all(|c| c.is_ascii_hexdigit()) {
                                return Err(ParseError::Syntax { line, msg: "invalid \\u escape".into() });
                            }
                            let cp = u32::from_str_radix(&src[i..i + n], 16).unwrap();
                            match char::from_u32(cp) {
                                Some(ch) => {
                                    let mut buf = [0u8; 4];
                                    v.extend_from_slice(ch.encode_utf8(&mut buf).as_bytes());
                                }
                                None => return Err(ParseError::Syntax { line, msg: "escape is invalid Unicode code point".into() }),
                            }
                            i += n;
                        }
                        b'0'..=b'7' => {
                            // \NNN: exactly three octal digits, value <= 255, one byte
                            if i + 1 >= b.len() || !(b'0'..=b'7').contains(&b[i]) || !(b'0'..=b'7').contains(&b[i + 1]) {
                                return Err(ParseError::Syntax { line, msg: "invalid octal escape".into() });
                            }
                            let val = ((e - b'0') as u32) * 64 + ((b[i] - b'0') as u32) * 8 + (b[i + 1] - b'0') as u32;
                            if val > 255 {
                                return Err(ParseError::Syntax { line, msg: "octal escape value > 255".into() });
                            }
                            v.push(val as u8);
                            i += 2;
                        }
                        _ => {
                            return Err(ParseError::Syntax {
                                line,
                                msg: format!("unknown escape sequence \\{}", e as char),
                            });
                        }
                    }
                    continue;
                }
                // raw byte (utf-8 passes through). Go rejects NUL? No: NUL is only illegal in
                // source text generally ("illegal character NUL").
                if ch == 0 {
                    return Err(ParseError::Syntax {
                        line,
                        msg: "illegal character NUL".into(),
                    });
                }
                v.push(ch);
                i += 1;
            }
            // Go source must be valid UTF-8; it is, since it came from a Rust String.
            // A BOM inside the file is illegal.
            out.push((Tok::Str(v), line));
            continue;
        }
        if c == b'`' || c == b'\'' {
            return Err(ParseError::Unsupported {
                line,
                msg: "raw string / rune literal".into(),
            });
        }
        if c == b';' {
            out.push((Tok::Semi, line));
            i += 1;
            continue;
        }
        let mut matched = false;
        for op in OPS.iter() {
            if src[i..].starts_with(op) {
                out.push((Tok::Op(op), line));
                i += op.len();
                matched = true;
                break;
            }
        }
        if !matched {
            return Err(ParseError::Syntax {
                line,
                msg: format!("invalid character {:?}", c as char),
            });
        }
    }
    if let Some((t, _)) = out.last() {
        if needs_semi(t) {
            out.push((Tok::Semi, line));
        }
    }
    out.push((Tok::Eof, line));
    Ok(out)
}

// ---------------------------------------------------------------- parser

struct P {
    toks: Vec<(Tok, Pos)>,
    i: usize,
    /// < 0 while parsing a control clause header (composite literals of bare type names disabled)
    expr_lev: i32,
}

type PR<T> = Result<T, ParseError>;

impl P {
    fn peek(&self) -> &Tok {
        &self.toks[self.i].0
    }
    fn peek_at(&self, k: usize) -> &Tok {
        let j = (self.i + k).min(self.toks.len() - 1);
        &self.toks[j].0
    }
    fn line(&self) -> Pos {
        self.toks[self.i].1
    }
    fn next(&mut self) -> Tok {
        let t = self.toks[self.i].0.clone();
        if self.i + 1 < self.toks.len() {
            self.i += 1;
        }
        t
    }
    fn err<T>(&self, msg: impl Into<String>) -> PR<T> {
        Err(ParseError::Syntax {
            line: self.line(),
            msg: msg.into(),
        })
    }
    fn unsup<T>(&self, msg: impl Into<String>) -> PR<T> {
        Err(ParseError::Unsupported {
            line: self.line(),
            msg: msg.into(),
        })
    }
    fn is_op(&self, o: &str) -> bool {
        matches!(self.peek(), Tok::Op(x) if *x == o)
    }
    fn is_kw(&self, k: &str) -> bool {
        matches!(self.peek(), Tok::Kw(x) if *x == k)
    }
    fn eat_op(&mut self, o: &str) -> bool {
        if self.is_op(o) {
            self.next();
            true
        } else {
            false
        }
    }
    fn expect_op(&mut self, o: &str) -> PR<()> {
        if self.eat_op(o) {
            Ok(())
        } else {
            self.err(format!("expected {:?}, found {:?}", o, self.peek()))
        }
    }
    fn expect_kw(&mut self, k: &str) -> PR<()> {
        if self.is_kw(k) {
            self.next();
            Ok(())
        } else {
            self.err(format!("expected keyword {:?}, found {:?}", k, self.peek()))
        }
    }
    fn ident(&mut self) -> PR<String> {
        match self.next() {
            Tok::Ident(s) => Ok(s),
            t => {
                self.i = self.i.saturating_sub(1);
                self.err(format!("expected identifier, found {:?}", t))
            }
        }
    }
    fn skip_semis(&mut self) {
        while matches!(self.peek(), Tok::Semi) {
            self.next();
        }
    }
    fn expect_semi(&mut self) -> PR<()> {
        match self.peek() {
            Tok::Semi => {
                self.next();
                Ok(())
            }
            Tok::Eof => Ok(()),
            Tok::Op(")") | Tok::Op("}") => Ok(()),
            t => self.err(format!("expected ';' or newline, found {:?}", t)),
        }
    }

    fn file(&mut self) -> PR<File> {
        self.skip_semis();
        self.expect_kw("package")?;
        let package = self.ident()?;
        self.expect_semi()?;
        self.skip_semis();
        let mut imports = Vec::new();
        while self.is_kw("import") {
            self.next();
            if self.eat_op("(") {
                self.skip_semis();
                while !self.is_op(")") {
                    imports.push(self.import_spec()?);
                    self.expect_semi()?;
                    self.skip_semis();
                }
                self.expect_op(")")?;
            } else {
                imports.push(self.import_spec()?);
            }
            self.expect_semi()?;
            self.skip_semis();
        }
        let mut items = Vec::new();
        loop {
            self.skip_semis();
            match self.peek() {
                Tok::Eof => break,
                Tok::Kw("type") => items.push(self.type_decl()?),
                Tok::Kw("func") => items.push(Item::Func(self.func_decl()?)),
                Tok::Kw("import") => return self.err("imports must appear before other declarations"),
                Tok::Kw("var") | Tok::Kw("const") => return self.unsup("package-level var/const"),
                t => return self.err(format!("non-declaration statement outside function body: {:?}", t)),
            }
            self.expect_semi()?;
        }
        Ok(File {
            package,
            imports,
            items,
        })
    }

    fn import_spec(&mut self) -> PR<Import> {
        let line = self.line();
        let alias = match self.peek() {
            Tok::Ident(_) => Some(self.ident()?),
            Tok::Op(".") => return self.unsup("dot import"),
            _ => None,
        };
        match self.next() {
            Tok::Str(s) => Ok(Import {
                alias,
                path: String::from_utf8_lossy(&s).into_owned(),
                line,
            }),
            t => self.err(format!("import path must be a string, found {:?}", t)),
        }
    }

    fn type_decl(&mut self) -> PR<Item> {
        let line = self.line();
        self.expect_kw("type")?;
        let name = self.ident()?;
        if self.eat_op("=") {
            let ty = self.ty()?;
            return Ok(Item::Alias { name, ty, line });
        }
        if self.is_op("[") {
            return self.unsup("generic type declaration");
        }
        if self.is_kw("interface") {
            self.next();
            self.expect_op("{")?;
            self.skip_semis();
            let mut methods = Vec::new();
            while !self.is_op("}") {
                let mname = self.ident()?;
                let params = self.params()?;
                let ret = self.opt_result()?;
                methods.push(MethodSig {
                    name: mname,
                    params,
                    ret,
                });
                self.expect_semi()?;
                self.skip_semis();
            }
            self.expect_op("}")?;
            return Ok(Item::Interface {
                name,
                methods,
                line,
            });
        }
        if self.is_kw("struct") {
            self.next();
            self.expect_op("{")?;
            self.skip_semis();
            let mut fields = Vec::new();
            while !self.is_op("}") {
                let fname = self.ident()?;
                if self.is_op(",") {
                    return self.unsup("multi-name field");
                }
                if matches!(self.peek(), Tok::Semi) || self.is_op("}") {
                    return self.unsup("embedded field");
                }
                let fty = self.ty()?;
                if matches!(self.peek(), Tok::Str(_)) {
                    return self.unsup("field tag");
                }
                fields.push((fname, fty));
                self.expect_semi()?;
                self.skip_semis();
            }
            self.expect_op("}")?;
            return Ok(Item::Struct { name, fields, line });
        }
        self.unsup("type definition other than struct/interface/alias")
    }

    fn params(&mut self) -> PR<Vec<Param>> {
        self.expect_op("(")?;
        let mut ps = Vec::new();
        while !self.is_op(")") {
            // The printer always emits `name type`.
            let name = self.ident()?;
            if self.is_op(",") || self.is_op(")") {
                return self.unsup("unnamed or grouped parameter");
            }
            let ty = self.ty()?;
            ps.push(Param { name, ty });
            if !self.eat_op(",") {
                break;
            }
        }
        self.expect_op(")")?;
        Ok(ps)
    }

    fn starts_type(&self) -> bool {
        match self.peek() {
            Tok::Ident(_) => true,
            Tok::Kw("struct") | Tok::Kw("func") | Tok::Kw("interface") | Tok::Kw("map") | Tok::Kw("chan") => true,
            Tok::Op("*") | Tok::Op("[") | Tok::Op("(") => true,
            _ => false,
        }
    }

    fn opt_result(&mut self) -> PR<Option<TyExpr>> {
        if self.is_op("(") {
            return self.unsup("parenthesised / multiple results");
        }
        if self.starts_type() {
            Ok(Some(self.ty()?))
        } else {
            Ok(None)
        }
    }

    fn ty(&mut self) -> PR<TyExpr> {
        match self.peek().clone() {
            Tok::Ident(n) => {
                self.next();
                if self.is_op(".") {
                    self.next();
                    let m = self.ident()?;
                    return Ok(TyExpr::Qualified(n, m));
                }
                Ok(TyExpr::Name(n))
            }
            Tok::Kw("struct") => {
                self.next();
                self.expect_op("{")?;
                if !self.eat_op("}") {
                    return self.unsup("anonymous struct type with fields");
                }
                Ok(TyExpr::EmptyStruct)
            }
            Tok::Op("*") => {
                self.next();
                Ok(TyExpr::Ptr(Box::new(self.ty()?)))
            }
            Tok::Op("[") => {
                self.next();
                if self.eat_op("]") {
                    return Ok(TyExpr::Slice(Box::new(self.ty()?)));
                }
                match self.next() {
                    Tok::Int(n) => {
                        self.expect_op("]")?;
                        Ok(TyExpr::Array(n, Box::new(self.ty()?)))
                    }
                    t => self.unsup(format!("array length {:?}", t)),
                }
            }
            Tok::Kw("func") => {
                self.next();
                self.expect_op("(")?;
                let mut ps = Vec::new();
                while !self.is_op(")") {
                    ps.push(self.ty()?);
                    if !self.eat_op(",") {
                        break;
                    }
                }
                self.expect_op(")")?;
                let r = self.opt_result()?;
                Ok(TyExpr::Func(ps, r.map(Box::new)))
            }
            Tok::Kw("interface") | Tok::Kw("map") | Tok::Kw("chan") => self.unsup("interface/map/chan type literal"),
            t => self.err(format!("expected type, found {:?}", t)),
        }
    }

    fn func_decl(&mut self) -> PR<FuncDecl> {
        let line = self.line();
        self.expect_kw("func")?;
        let recv = if self.is_op("(") {
            let ps = self.params()?;
            if ps.len() != 1 {
                return self.err("method has multiple receivers");
            }
            Some(ps.into_iter().next().unwrap())
        } else {
            None
        };
        let name = self.ident()?;
        if self.is_op("[") {
            return self.unsup("generic function");
        }
        let params = self.params()?;
        let ret = if self.is_op("{") { None } else { self.opt_result()? };
        if !self.is_op("{") {
            return self.err(format!("expected function body, found {:?}", self.peek()));
        }
        let save = self.expr_lev;
        self.expr_lev = 0;
        let body = self.block()?;
        self.expr_lev = save;
        Ok(FuncDecl {
            name,
            recv,
            params,
            ret,
            body,
            line,
        })
    }

    fn block(&mut self) -> PR<Block> {
        self.expect_op("{")?;
        let stmts = self.stmt_list()?;
        self.expect_op("}")?;
        Ok(Block { stmts })
    }

    fn stmt_list(&mut self) -> PR<Vec<Stmt>> {
        let mut stmts = Vec::new();
        loop {
            self.skip_semis();
            if self.is_op("}") || self.is_kw("case") || self.is_kw("default") || matches!(self.peek(), Tok::Eof) {
                break;
            }
            stmts.push(self.stmt()?);
            // statements are terminated by ; unless followed by } (or case/default)
            if self.is_op("}") {
                break;
            }
            self.expect_semi()?;
        }
        Ok(stmts)
    }

    fn stmt(&mut self) -> PR<Stmt> {
        let line = self.line();
        let kind = match self.peek().clone() {
            Tok::Kw("var") => {
                self.next();
                let name = self.ident()?;
                if self.is_op(",") {
                    return self.unsup("multi-var declaration");
                }
                if self.is_op("=") {
                    return self.unsup("var without type");
                }
                let ty = self.ty()?;
                let init = if self.eat_op("=") { Some(self.expr()?) } else { None };
                StmtKind::VarDecl(name, ty, init)
            }
            Tok::Kw("return") => {
                self.next();
                if matches!(self.peek(), Tok::Semi) || self.is_op("}") {
                    StmtKind::Return(None)
                } else {
                    let e = self.expr()?;
                    if self.is_op(",") {
                        return self.unsup("multiple return values");
                    }
                    StmtKind::Return(Some(e))
                }
            }
            Tok::Kw("go") => {
                self.next();
                let e = self.expr()?;
                StmtKind::Go(e)
            }
            Tok::Kw("break") => {
                self.next();
                if matches!(self.peek(), Tok::Ident(_)) {
                    return self.unsup("labelled break");
                }
                StmtKind::Break
            }
            Tok::Kw("for") => {
                self.next();
                if !self.is_op("{") {
                    return self.unsup("for with clauses");
                }
                StmtKind::For(self.block()?)
            }
            Tok::Kw("if") => return self.if_stmt(),
            Tok::Kw("switch") => return self.switch_stmt(),
            Tok::Op("{") => StmtKind::Block(self.block()?),
            Tok::Kw(k) => return self.unsup(format!("statement keyword {}", k)),
            _ => {
                let lhs = self.expr()?;
                if self.eat_op("=") {
                    let rhs = self.expr()?;
                    StmtKind::Assign(lhs, rhs)
                } else if self.is_op(":=") {
                    return self.unsup("short variable declaration");
                } else if self.is_op(",") {
                    return self.unsup("tuple assignment");
                } else if self.is_op("++") || self.is_op("--") {
                    return self.unsup("inc/dec");
                } else {
                    StmtKind::Expr(lhs)
                }
            }
        };
        Ok(Stmt { kind, line })
    }

    fn header_expr(&mut self) -> PR<Expr> {
        let save = self.expr_lev;
        self.expr_lev = -1;
        let e = self.expr();
        self.expr_lev = save;
        e
    }

    fn if_stmt(&mut self) -> PR<Stmt> {
        let line = self.line();
        self.expect_kw("if")?;
        if self.is_op("{") {
            return self.err("missing condition in if statement");
        }
        let cond = self.header_expr()?;
        if matches!(self.peek(), Tok::Semi) {
            return self.unsup("if with init statement (or composite literal split a header)");
        }
        if !self.is_op("{") {
            return self.err(format!("expected '{{' after if condition, found {:?}", self.peek()));
        }
        let then = self.block()?;
        let els = if self.is_kw("else") {
            self.next();
            if self.is_kw("if") {
                let s = self.if_stmt()?;
                Some(Block { stmts: vec![s] })
            } else if self.is_op("{") {
                Some(self.block()?)
            } else {
                return self.err("else must be followed by if or statement block");
            }
        } else {
            None
        };
        Ok(Stmt {
            kind: StmtKind::If(cond, then, els),
            line,
        })
    }

    fn switch_stmt(&mut self) -> PR<Stmt> {
        let line = self.line();
        self.expect_kw("switch")?;
        let mut bind = None;
        if matches!(self.peek(), Tok::Ident(_)) && matches!(self.peek_at(1), Tok::Op(":=")) {
            bind = Some(self.ident()?);
            self.next();
        }
        if self.is_op("{") {
            return self.unsup("tagless switch");
        }
        let tag = self.header_expr()?;
        if !self.is_op("{") {
            return self.err(format!("expected '{{' after switch header, found {:?}", self.peek()));
        }
        self.next();
        let is_type_switch = matches!(tag.kind, ExprKind::TypeSwitchGuard(_));
        if bind.is_some() && !is_type_switch {
            return self.unsup("switch with init statement");
        }
        let mut default: Option<Block> = None;
        if is_type_switch {
            let inner = match tag.kind {
                ExprKind::TypeSwitchGuard(e) => *e,
                _ => unreachable!(),
            };
            let mut cases = Vec::new();
            loop {
                self.skip_semis();
                if self.eat_op("}") {
                    break;
                }
                if self.is_kw("case") {
                    self.next();
                    let t = self.ty()?;
                    if self.is_op(",") {
                        return self.unsup("multi-type case");
                    }
                    self.expect_op(":")?;
                    let stmts = self.stmt_list()?;
                    cases.push((t, Block { stmts }));
                } else if self.is_kw("default") {
                    self.next();
                    self.expect_op(":")?;
                    let stmts = self.stmt_list()?;
                    if default.is_some() {
                        return self.err("multiple defaults in switch");
                    }
                    default = Some(Block { stmts });
                } else {
                    return self.err(format!("expected case or default, found {:?}", self.peek()));
                }
            }
            return Ok(Stmt {
                kind: StmtKind::TypeSwitch(bind, inner, cases, default),
                line,
            });
        }
        let mut cases = Vec::new();
        loop {
            self.skip_semis();
            if self.eat_op("}") {
                break;
            }
            if self.is_kw("case") {
                self.next();
                let save = self.expr_lev;
                self.expr_lev = 0;
                let e = self.expr();
                self.expr_lev = save;
                let e = e?;
                if self.is_op(",") {
                    return self.unsup("multi-value case");
                }
                self.expect_op(":")?;
                let stmts = self.stmt_list()?;
                cases.push((e, Block { stmts }));
            } else if self.is_kw("default") {
                self.next();
                self.expect_op(":")?;
                let stmts = self.stmt_list()?;
                if default.is_some() {
                    return self.err("multiple defaults in switch");
                }
                default = Some(Block { stmts });
            } else {
                return self.err(format!("expected case or default, found {:?}", self.peek()));
            }
        }
        Ok(Stmt {
            kind: StmtKind::Switch(tag, cases, default),
            line,
        })
    }

    fn expr(&mut self) -> PR<Expr> {
        self.binary(1)
    }

    fn binop(&self) -> Option<BinOp> {
        match self.peek() {
            Tok::Op(o) => Some(match *o {
                "+" => BinOp::Add,
                "-" => BinOp::Sub,
                "*" => BinOp::Mul,
                "/" => BinOp::Div,
                "%" => BinOp::Rem,
                "<" => BinOp::Lt,
                ">" => BinOp::Gt,
                "<=" => BinOp::Le,
                ">=" => BinOp::Ge,
                "==" => BinOp::Eq,
                "!=" => BinOp::Ne,
                "&&" => BinOp::And,
                "||" => BinOp::Or,
                _ => return None,
            }),
            _ => None,
        }
    }

    fn binary(&mut self, min_prec: u8) -> PR<Expr> {
        let mut lhs = self.unary()?;
        loop {
            let Some(op) = self.binop() else { break };
            let p = op.prec();
            if p < min_prec {
                break;
            }
            let line = self.line();
            self.next();
            let rhs = self.binary(p + 1)?;
            lhs = Expr {
                kind: ExprKind::Binary(op, Box::new(lhs), Box::new(rhs)),
                line,
                ty: None,
            };
        }
        if self.is_op("|") || self.is_op("<-") {
            return self.unsup("operator outside subset");
        }
        Ok(lhs)
    }

    fn unary(&mut self) -> PR<Expr> {
        let line = self.line();
        let op = match self.peek() {
            Tok::Op("-") => Some(UnOp::Neg),
            Tok::Op("!") => Some(UnOp::Not),
            Tok::Op("&") => Some(UnOp::Addr),
            Tok::Op("*") => Some(UnOp::Deref),
            Tok::Op("+") => return self.unsup("unary plus"),
            Tok::Op("<-") => return self.unsup("receive"),
            _ => None,
        };
        if let Some(op) = op {
            self.next();
            let e = self.unary()?;
            return Ok(Expr {
                kind: ExprKind::Unary(op, Box::new(e)),
                line,
                ty: None,
            });
        }
        self.primary()
    }

    fn composite_body(&mut self) -> PR<Vec<(Option<String>, Expr)>> {
        self.expect_op("{")?;
        let save = self.expr_lev;
        self.expr_lev = 0;
        let mut elems = Vec::new();
        loop {
            self.skip_newline_semis_in_literal()?;
            if self.is_op("}") {
                break;
            }
            // key: value  or value
            let e = self.expr()?;
            if self.eat_op(":") {
                let key = match e.kind {
                    ExprKind::Ident(n) => n,
                    _ => return self.unsup("non-identifier composite key"),
                };
                let v = self.expr()?;
                elems.push((Some(key), v));
            } else {
                elems.push((None, e));
            }
            if self.eat_op(",") {
                continue;
            }
            // Without a trailing comma, the closing brace must be on the same line: a newline
            // here would have inserted a ';' → syntax error in Go.
            if matches!(self.peek(), Tok::Semi) {
                return self.err("unexpected newline in composite literal; possibly missing comma or }");
            }
            break;
        }
        self.expr_lev = save;
        self.expect_op("}")?;
        Ok(elems)
    }

    fn skip_newline_semis_in_literal(&mut self) -> PR<()> {
        // after '{' or ',' a newline never inserts a semicolon, so none can appear here.
        if matches!(self.peek(), Tok::Semi) {
            return self.err("unexpected ';' in composite literal");
        }
        Ok(())
    }

    fn primary(&mut self) -> PR<Expr> {
        let line = self.line();
        let mut e = match self.peek().clone() {
            Tok::Ident(n) => {
                self.next();
                Expr {
                    kind: ExprKind::Ident(n),
                    line,
                    ty: None,
                }
            }
            Tok::Int(s) => {
                self.next();
                Expr {
                    kind: ExprKind::Int(s.replace('_', "")),
                    line,
                    ty: None,
                }
            }
            Tok::Float(s) => {
                self.next();
                Expr {
                    kind: ExprKind::Float(s),
                    line,
                    ty: None,
                }
            }
            Tok::Str(s) => {
                self.next();
                Expr {
                    kind: ExprKind::Str(s),
                    line,
                    ty: None,
                }
            }
            Tok::Op("(") => {
                self.next();
                let save = self.expr_lev;
                self.expr_lev = 0;
                let inner = self.expr();
                self.expr_lev = save;
                let inner = inner?;
                self.expect_op(")")?;
                Expr {
                    kind: ExprKind::Paren(Box::new(inner)),
                    line,
                    ty: None,
                }
            }
            Tok::Kw("struct") => {
                // struct{}{}  (the unit value)
                let t = self.ty()?;
                if !self.is_op("{") {
                    return self.err("type used as expression");
                }
                let body = self.composite_body()?;
                if !body.is_empty() {
                    return self.err("too many values in struct{}{...}");
                }
                debug_assert_eq!(t, TyExpr::EmptyStruct);
                Expr {
                    kind: ExprKind::UnitLit,
                    line,
                    ty: None,
                }
            }
            Tok::Op("[") => {
                let t = self.ty()?;
                if !self.is_op("{") {
                    return self.err("array/slice type used as expression");
                }
                let body = self.composite_body()?;
                Expr {
                    kind: ExprKind::Composite(t, body),
                    line,
                    ty: None,
                }
            }
            Tok::Kw("func") => return self.unsup("function literal"),
            t => return self.err(format!("unexpected token {:?} in expression", t)),
        };
        loop {
            let line = self.line();
            if self.is_op(".") {
                self.next();
                if self.eat_op("(") {
                    if self.is_kw("type") {
                        self.next();
                        self.expect_op(")")?;
                        e = Expr {
                            kind: ExprKind::TypeSwitchGuard(Box::new(e)),
                            line,
                            ty: None,
                        };
                    } else {
                        let t = self.ty()?;
                        self.expect_op(")")?;
                        e = Expr {
                            kind: ExprKind::Assert(Box::new(e), t),
                            line,
                            ty: None,
                        };
                    }
                } else {
                    let name = self.ident()?;
                    e = Expr {
                        kind: ExprKind::Selector(Box::new(e), name),
                        line,
                        ty: None,
                    };
                }
                continue;
            }
            if self.is_op("(") {
                self.next();
                let save = self.expr_lev;
                self.expr_lev = 0;
                let mut args = Vec::new();
                while !self.is_op(")") {
                    args.push(self.expr()?);
                    if !self.eat_op(",") {
                        break;
                    }
                }
                self.expr_lev = save;
                self.expect_op(")")?;
                e = Expr {
                    kind: ExprKind::Call(Box::new(e), args),
                    line,
                    ty: None,
                };
                continue;
            }
            if self.is_op("[") {
                self.next();
                let save = self.expr_lev;
                self.expr_lev = 0;
                // slice expressions: a[lo:hi], a[lo:hi:max]
                let lo = if self.is_op(":") { None } else { Some(self.expr()) };
                if self.is_op(":") {
                    let lo = match lo {
                        Some(r) => Some(Box::new(r?)),
                        None => None,
                    };
                    self.next();
                    let hi = if self.is_op(":") || self.is_op("]") { None } else { Some(Box::new(self.expr()?)) };
                    let mut max = None;
                    if self.is_op(":") {
                        self.next();
                        max = Some(Box::new(self.expr()?));
                        if hi.is_none() {
                            self.expr_lev = save;
                            return self.err("middle index required in 3-index slice");
                        }
                    }
                    self.expr_lev = save;
                    self.expect_op("]")?;
                    e = Expr { kind: ExprKind::SliceExpr(Box::new(e), lo, hi, max), line, ty: None };
                    continue;
                }
                self.expr_lev = save;
                let idx = lo.unwrap()?;
                self.expect_op("]")?;
                e = Expr {
                    kind: ExprKind::Index(Box::new(e), Box::new(idx)),
                    line,
                    ty: None,
                };
                continue;
            }
            if self.is_op("{") {
                // composite literal of a (possibly qualified) type name?
                let is_type_name = matches!(&e.kind, ExprKind::Ident(_))
                    || matches!(&e.kind, ExprKind::Selector(b, _) if matches!(b.kind, ExprKind::Ident(_)));
                if is_type_name && self.expr_lev >= 0 {
                    let t = match &e.kind {
                        ExprKind::Ident(n) => TyExpr::Name(n.clone()),
                        ExprKind::Selector(b, m) => match &b.kind {
                            ExprKind::Ident(p) => TyExpr::Qualified(p.clone(), m.clone()),
                            _ => unreachable!(),
                        },
                        _ => unreachable!(),
                    };
                    let body = self.composite_body()?;
                    e = Expr {
                        kind: ExprKind::Composite(t, body),
                        line,
                        ty: None,
                    };
                    continue;
                }
            }
            break;
        }
        Ok(e)
    }
}

pub fn parse(src: &str) -> Result<File, ParseError> {
    if src.contains('\u{feff}') {
        return Err(ParseError::Syntax {
            line: 1,
            msg: "illegal byte order mark".into(),
        });
    }
    let toks = lex(src)?;
    let mut p = P {
        toks,
        i: 0,
        expr_lev: 0,
    };
    p.file()
}
