//! Static checker for the Go subset: implements the Go spec rules that the
//! emitted code can violate (Appendix A of DESIGN.md). Annotates the AST for
//! the interpreter (resolved identifiers, constant values, implicit interface
//! conversions).

use super::rat::Rat;
use super::syntax::*;
use std::collections::{HashMap, HashSet};

#[derive(Debug, Clone, PartialEq)]
pub struct GoError {
    pub rule: &'static str,
    pub line: Pos,
    pub msg: String,
}

#[derive(Debug, Clone)]
pub enum TypeDef {
    Struct(Vec<(String, Ty)>),
    Interface(Vec<(String, Vec<Ty>, Option<Ty>)>),
}

#[derive(Debug, Clone, PartialEq)]
pub struct FuncSig {
    pub params: Vec<Ty>,
    pub ret: Option<Ty>,
}

pub struct Program {
    pub file: File,
    pub types: HashMap<String, TypeDef>,
    pub funcs: HashMap<String, usize>,
    pub methods: HashMap<(String, String), usize>,
    pub rules_evaluated: HashMap<&'static str, u64>,
    /// true if the program imports packages the interpreter does not model
    pub foreign_imports: Vec<String>,
}

#[derive(Debug, Clone, PartialEq)]
enum Const {
    Int(i128),
    Float(Rat),
    Str(Vec<u8>),
    Bool(bool),
}

/// Static type of an expression, possibly an untyped constant.
#[derive(Debug, Clone, PartialEq)]
enum XTy {
    T(Ty),
    UntypedInt,
    UntypedFloat,
    UntypedStr,
    UntypedBool,
    UntypedNil,
    Void, // call without result
    Opaque, // value of a foreign (unmodelled) type: accepted everywhere
}

#[derive(Debug, Clone)]
struct X {
    ty: XTy,
    konst: Option<Const>,
    addressable: bool,
}

#[derive(Debug, Clone, PartialEq)]
enum Ent {
    Local(Ty, usize), // type, id into used-table
    Func(FuncSig),
    Type(Ty),
    Package(String),
    UniverseType(Ty),
    UniverseConst(&'static str),
    UniverseBuiltin(&'static str),
}

const UNIVERSE_BUILTINS: [&str; 17] = [
    "append", "cap", "clear", "close", "complex", "copy", "delete", "imag", "len", "make", "max", "min", "new",
    "panic", "print", "println", "real",
];

fn universe(name: &str) -> Option<Ent> {
    let t = |t: Ty| Some(Ent::UniverseType(t));
    match name {
        "bool" => t(Ty::Bool),
        "int8" => t(Ty::Int(IntKind::I8)),
        "int16" => t(Ty::Int(IntKind::I16)),
        "int32" | "rune" => t(Ty::Int(IntKind::I32)),
        "int64" => t(Ty::Int(IntKind::I64)),
        "uint8" | "byte" => t(Ty::Int(IntKind::U8)),
        "uint16" => t(Ty::Int(IntKind::U16)),
        "uint32" => t(Ty::Int(IntKind::U32)),
        "uint64" => t(Ty::Int(IntKind::U64)),
        "int" => t(Ty::Int(IntKind::Int)),
        "float32" => t(Ty::F32),
        "float64" => t(Ty::F64),
        "string" => t(Ty::Str),
        "any" => t(Ty::Named("any".into())),
        "true" => Some(Ent::UniverseConst("true")),
        "false" => Some(Ent::UniverseConst("false")),
        "nil" => Some(Ent::UniverseConst("nil")),
        "iota" => Some(Ent::UniverseConst("iota")),
        "recover" => Some(Ent::UniverseBuiltin("recover")),
        _ => UNIVERSE_BUILTINS.iter().find(|b| **b == name).map(|b| Ent::UniverseBuiltin(b)),
    }
}

struct LocalInfo {
    name: String,
    line: Pos,
    used: bool,
    is_param: bool,
}

struct Ck {
    errs: Vec<GoError>,
    types: HashMap<String, TypeDef>,
    pkg: HashMap<String, Ent>,
    methods: HashMap<(String, String), FuncSig>,
    scopes: Vec<HashMap<String, Ent>>,
    locals: Vec<LocalInfo>,
    cur_ret: Option<Ty>,
    used_imports: HashSet<String>,
    rules: HashMap<&'static str, u64>,
    loop_depth: u32,
    switch_depth: u32,
    opaque_pkgs: HashSet<String>,
}

fn is_numeric(t: &Ty) -> bool {
    matches!(t, Ty::Int(_) | Ty::F32 | Ty::F64)
}

impl Ck {
    fn err(&mut self, rule: &'static str, line: Pos, msg: impl Into<String>) {
        self.errs.push(GoError {
            rule,
            line,
            msg: msg.into(),
        });
    }
    fn tick(&mut self, rule: &'static str) {
        *self.rules.entry(rule).or_insert(0) += 1;
    }

    fn lookup(&self, name: &str) -> Option<Ent> {
        for s in self.scopes.iter().rev() {
            if let Some(e) = s.get(name) {
                return Some(e.clone());
            }
        }
        if let Some(e) = self.pkg.get(name) {
            return Some(e.clone());
        }
        universe(name)
    }

    fn is_iface(&self, t: &Ty) -> bool {
        match t {
            Ty::Named(n) if n == "any" => true,
            Ty::Named(n) => matches!(self.types.get(n), Some(TypeDef::Interface(_))),
            _ => false,
        }
    }

    fn iface_methods(&self, t: &Ty) -> Vec<(String, Vec<Ty>, Option<Ty>)> {
        match t {
            Ty::Named(n) if n == "any" => vec![],
            Ty::Named(n) => match self.types.get(n) {
                Some(TypeDef::Interface(ms)) => ms.clone(),
                _ => vec![],
            },
            _ => vec![],
        }
    }

    /// does concrete (or interface) type `t` implement interface `iface`?
    fn implements(&self, t: &Ty, iface: &Ty) -> bool {
        let need = self.iface_methods(iface);
        if need.is_empty() {
            return true;
        }
        if self.is_iface(t) {
            let have = self.iface_methods(t);
            return need.iter().all(|m| have.iter().any(|h| h == m));
        }
        let base = match t {
            Ty::Named(n) => n.clone(),
            Ty::Ptr(inner) => match &**inner {
                Ty::Named(n) => n.clone(),
                _ => return false,
            },
            _ => return false,
        };
        need.iter().all(|(mname, ps, r)| match self.methods.get(&(base.clone(), mname.clone())) {
            Some(sig) => &sig.params == ps && &sig.ret == r,
            None => false,
        })
    }

    fn comparable(&self, t: &Ty, seen: &mut Vec<String>) -> bool {
        match t {
            Ty::EmptyStruct | Ty::Bool | Ty::Int(_) | Ty::F32 | Ty::F64 | Ty::Str | Ty::Ptr(_) => true,
            Ty::Slice(_) | Ty::Func(..) => false,
            Ty::Array(_, e) => self.comparable(e, seen),
            Ty::Named(n) => {
                if n == "any" {
                    return true;
                }
                match self.types.get(n) {
                    Some(TypeDef::Interface(_)) => true,
                    Some(TypeDef::Struct(fs)) => {
                        if seen.contains(n) {
                            return true;
                        }
                        seen.push(n.clone());
                        let fs = fs.clone();
                        fs.iter().all(|(_, ft)| self.comparable(ft, seen))
                    }
                    None => true,
                }
            }
        }
    }

    fn resolve_ty(&mut self, t: &TyExpr, line: Pos) -> Option<Ty> {
        match t {
            TyExpr::EmptyStruct => Some(Ty::EmptyStruct),
            TyExpr::Name(n) => match self.lookup(n) {
                Some(Ent::Type(t)) | Some(Ent::UniverseType(t)) => Some(t),
                Some(_) => {
                    self.err("undefined", line, format!("{} is not a type", n));
                    None
                }
                None => {
                    self.err("undefined", line, format!("undefined: {}", n));
                    None
                }
            },
            TyExpr::Qualified(p, m) => match self.lookup(p) {
                Some(Ent::Package(path)) => {
                    self.used_imports.insert(p.clone());
                    Some(Ty::Named(format!("{}.{}", path, m)))
                }
                _ => {
                    self.err("undefined", line, format!("undefined: {}", p));
                    None
                }
            },
            TyExpr::Ptr(e) => self.resolve_ty(e, line).map(|t| Ty::Ptr(Box::new(t))),
            TyExpr::Slice(e) => self.resolve_ty(e, line).map(|t| Ty::Slice(Box::new(t))),
            TyExpr::Array(n, e) => {
                let len: u64 = match n.parse() {
                    Ok(v) => v,
                    Err(_) => {
                        self.err("types", line, format!("invalid array length {}", n));
                        return None;
                    }
                };
                self.resolve_ty(e, line).map(|t| Ty::Array(len, Box::new(t)))
            }
            TyExpr::Func(ps, r) => {
                let mut pts = Vec::new();
                for p in ps {
                    pts.push(self.resolve_ty(p, line)?);
                }
                let rt = match r {
                    Some(r) => Some(Box::new(self.resolve_ty(r, line)?)),
                    None => None,
                };
                Some(Ty::Func(pts, rt))
            }
        }
    }

    fn is_opaque_ty(&self, t: &Ty) -> bool {
        matches!(t, Ty::Named(n) if n.contains('.'))
    }

    // ------------------------------------------------------------ constants

    fn representable(&mut self, c: &Const, t: &Ty, line: Pos) -> bool {
        self.tick("const-repr");
        match (c, t) {
            (Const::Int(v), Ty::Int(k)) => {
                if *v < k.min_val() || *v > k.max_val() {
                    self.err("const-overflow", line, format!("cannot use {} as {} value (overflows)", v, k.name()));
                    false
                } else {
                    true
                }
            }
            (Const::Int(_), Ty::F32 | Ty::F64) => true,
            (Const::Float(f), Ty::Int(k)) => {
                if !f.is_int() {
                    self.err("const-overflow", line, format!("cannot use {:?} as {} value (truncated)", f, k.name()));
                    false
                } else if f.n < k.min_val() || f.n > k.max_val() {
                    self.err("const-overflow", line, format!("cannot use {} as {} value (overflows)", f.n, k.name()));
                    false
                } else {
                    true
                }
            }
            (Const::Float(f), Ty::F32) => {
                if f.to_f32().is_infinite() {
                    self.err("const-overflow", line, format!("cannot use {:?} as float32 value (overflows)", f));
                    false
                } else {
                    true
                }
            }
            (Const::Float(f), Ty::F64) => {
                if f.to_f64().is_infinite() {
                    self.err("const-overflow", line, format!("cannot use {:?} as float64 value (overflows)", f));
                    false
                } else {
                    true
                }
            }
            (Const::Str(_), Ty::Str) => true,
            (Const::Bool(_), Ty::Bool) => true,
            _ => {
                self.err("assign", line, format!("cannot use constant {:?} as {} value", c, t));
                false
            }
        }
    }

    /// Convert expression `e` (already checked, result `x`) for use as a value of type `target`.
    /// Rewrites `e` (constant materialisation, interface boxing). Reports `assign` errors.
    fn assign_to(&mut self, e: &mut Expr, x: &X, target: &Ty, what: &str) {
        self.tick("assign");
        let line = e.line;
        if self.is_opaque_ty(target) || x.ty == XTy::Opaque {
            return;
        }
        match &x.ty {
            XTy::Void => self.err("assign", line, format!("{}: call without value used as value", what)),
            XTy::UntypedNil => match target {
                Ty::Ptr(_) | Ty::Slice(_) | Ty::Func(..) => {
                    e.ty = Some(target.clone());
                }
                t if self.is_iface(t) => {
                    e.ty = Some(target.clone());
                }
                _ => self.err("assign", line, format!("{}: cannot use nil as {} value", what, target)),
            },
            XTy::UntypedInt | XTy::UntypedFloat | XTy::UntypedStr | XTy::UntypedBool => {
                let c = x.konst.clone();
                if self.is_iface(target) {
                    // default type
                    let dt = match x.ty {
                        XTy::UntypedInt => Ty::Int(IntKind::Int),
                        XTy::UntypedFloat => Ty::F64,
                        XTy::UntypedStr => Ty::Str,
                        _ => Ty::Bool,
                    };
                    if !self.implements(&dt, target) {
                        self.err("assign", line, format!("{}: {} does not implement {}", what, dt, target));
                        return;
                    }
                    if let Some(c) = c {
                        self.materialize(e, &c, &dt);
                    } else {
                        e.ty = Some(dt.clone());
                    }
                    let inner = std::mem::replace(
                        e,
                        Expr {
                            kind: ExprKind::Nil,
                            line,
                            ty: None,
                        },
                    );
                    *e = Expr {
                        kind: ExprKind::ToIface(Box::new(inner), dt),
                        line,
                        ty: Some(target.clone()),
                    };
                    return;
                }
                match c {
                    Some(c) => {
                        if self.representable(&c, target, line) {
                            self.materialize(e, &c, target);
                        }
                    }
                    None => {
                        // untyped non-constant bool (comparison result)
                        if x.ty == XTy::UntypedBool && *target == Ty::Bool {
                            e.ty = Some(Ty::Bool);
                        } else {
                            self.err("assign", line, format!("{}: cannot use untyped value as {}", what, target));
                        }
                    }
                }
            }
            XTy::T(src) => {
                if src == target {
                    return;
                }
                if self.is_iface(target) {
                    if self.implements(src, target) {
                        if self.is_iface(src) {
                            e.ty = Some(target.clone());
                            return;
                        }
                        let inner = std::mem::replace(
                            e,
                            Expr {
                                kind: ExprKind::Nil,
                                line,
                                ty: None,
                            },
                        );
                        *e = Expr {
                            kind: ExprKind::ToIface(Box::new(inner), src.clone()),
                            line,
                            ty: Some(target.clone()),
                        };
                    } else {
                        self.err(
                            "assign",
                            line,
                            format!("{}: cannot use value of type {} as {} (missing method)", what, src, target),
                        );
                    }
                    return;
                }
                self.err("assign", line, format!("{}: cannot use value of type {} as {}", what, src, target));
            }
            XTy::Opaque => {}
        }
    }

    fn materialize(&mut self, e: &mut Expr, c: &Const, t: &Ty) {
        let kind = match (c, t) {
            (Const::Int(v), Ty::Int(_)) => ExprKind::ConstInt(*v, t.clone()),
            (Const::Int(v), Ty::F32) => ExprKind::ConstFloat(Rat::from_int(*v).to_f32() as f64, t.clone()),
            (Const::Int(v), Ty::F64) => ExprKind::ConstFloat(Rat::from_int(*v).to_f64(), t.clone()),
            (Const::Float(f), Ty::Int(_)) => ExprKind::ConstInt(f.n, t.clone()),
            (Const::Float(f), Ty::F32) => ExprKind::ConstFloat(f.to_f32() as f64, t.clone()),
            (Const::Float(f), Ty::F64) => ExprKind::ConstFloat(f.to_f64(), t.clone()),
            (Const::Str(s), _) => ExprKind::ConstStr(s.clone()),
            (Const::Bool(b), _) => ExprKind::ConstBool(*b),
            _ => return,
        };
        e.kind = kind;
        e.ty = Some(t.clone());
    }

    /// Give an untyped expression its default type (for contexts without a target type).
    fn default_type(&mut self, e: &mut Expr, x: &X) -> XTy {
        let line = e.line;
        match &x.ty {
            XTy::UntypedInt => {
                let t = Ty::Int(IntKind::Int);
                if let Some(c) = &x.konst {
                    if self.representable(c, &t, line) {
                        self.materialize(e, c, &t);
                    }
                }
                XTy::T(t)
            }
            XTy::UntypedFloat => {
                if let Some(c) = &x.konst {
                    self.materialize(e, c, &Ty::F64);
                }
                XTy::T(Ty::F64)
            }
            XTy::UntypedStr => {
                if let Some(c) = &x.konst {
                    self.materialize(e, c, &Ty::Str);
                }
                XTy::T(Ty::Str)
            }
            XTy::UntypedBool => {
                if let Some(c) = &x.konst {
                    self.materialize(e, c, &Ty::Bool);
                }
                e.ty = Some(Ty::Bool);
                XTy::T(Ty::Bool)
            }
            other => other.clone(),
        }
    }

    // ------------------------------------------------------------ expressions

    fn declare_local(&mut self, name: &str, ty: Ty, line: Pos, is_param: bool) {
        self.tick("redeclared");
        if name == "_" {
            return;
        }
        let id = self.locals.len();
        self.locals.push(LocalInfo {
            name: name.to_string(),
            line,
            used: false,
            is_param,
        });
        let scope = self.scopes.last_mut().unwrap();
        if scope.contains_key(name) {
            self.errs.push(GoError {
                rule: "redeclared",
                line,
                msg: format!("{} redeclared in this block", name),
            });
            return;
        }
        scope.insert(name.to_string(), Ent::Local(ty, id));
    }

    fn mark_used(&mut self, name: &str) {
        for s in self.scopes.iter().rev() {
            if let Some(Ent::Local(_, id)) = s.get(name) {
                self.locals[*id].used = true;
                return;
            } else if s.contains_key(name) {
                return;
            }
        }
    }

    fn expr(&mut self, e: &mut Expr) -> X {
        let x = self.expr_inner(e);
        if let XTy::T(t) = &x.ty {
            if e.ty.is_none() {
                e.ty = Some(t.clone());
            }
        }
        x
    }

    fn val(t: Ty) -> X {
        X {
            ty: XTy::T(t),
            konst: None,
            addressable: false,
        }
    }
    fn bad() -> X {
        X {
            ty: XTy::Opaque,
            konst: None,
            addressable: false,
        }
    }

    fn expr_inner(&mut self, e: &mut Expr) -> X {
        let line = e.line;
        match &mut e.kind {
            ExprKind::Nil => X {
                ty: XTy::UntypedNil,
                konst: None,
                addressable: false,
            },
            ExprKind::UnitLit => Self::val(Ty::EmptyStruct),
            ExprKind::Paren(inner) => {
                let x = self.expr(inner);
                let inner = std::mem::replace(
                    &mut **inner,
                    Expr {
                        kind: ExprKind::Nil,
                        line,
                        ty: None,
                    },
                );
                *e = inner;
                x
            }
            ExprKind::Int(s) => {
                let v: i128 = match s.parse() {
                    Ok(v) => v,
                    Err(_) => {
                        // Go's untyped integer constants have arbitrary precision (a float64 written
                        // without a fraction has 300 digits); the model's have 128 bits
                        self.err("unsupported-const", line, format!("integer constant {} not representable in the model", s));
                        0
                    }
                };
                X {
                    ty: XTy::UntypedInt,
                    konst: Some(Const::Int(v)),
                    addressable: false,
                }
            }
            ExprKind::Float(s) => {
                let v = match Rat::parse(s) {
                    Some(v) => v,
                    None => {
                        self.err("unsupported-const", line, format!("float constant {} not representable in the model", s));
                        Rat::from_int(0)
                    }
                };
                X {
                    ty: XTy::UntypedFloat,
                    konst: Some(Const::Float(v)),
                    addressable: false,
                }
            }
            ExprKind::Str(s) => X {
                ty: XTy::UntypedStr,
                konst: Some(Const::Str(s.clone())),
                addressable: false,
            },
            ExprKind::Ident(name) => {
                self.tick("undefined");
                let name = name.clone();
                if name == "_" {
                    self.err("undefined", line, "cannot use _ as value");
                    return Self::bad();
                }
                match self.lookup(&name) {
                    None => {
                        self.err("undefined", line, format!("undefined: {}", name));
                        Self::bad()
                    }
                    Some(Ent::Local(t, id)) => {
                        self.locals[id].used = true;
                        e.kind = ExprKind::Local(name);
                        X {
                            ty: XTy::T(t),
                            konst: None,
                            addressable: true,
                        }
                    }
                    Some(Ent::Func(sig)) => {
                        if name == "init" {
                            self.err("undefined", line, "cannot refer to init");
                        }
                        e.kind = ExprKind::Global(name);
                        Self::val(Ty::Func(sig.params.clone(), sig.ret.clone().map(Box::new)))
                    }
                    Some(Ent::Type(_)) | Some(Ent::UniverseType(_)) => {
                        self.err("undefined", line, format!("{} (type) is not an expression", name));
                        Self::bad()
                    }
                    Some(Ent::Package(_)) => {
                        self.err("undefined", line, format!("use of package {} without selector", name));
                        Self::bad()
                    }
                    Some(Ent::UniverseConst(c)) => match c {
                        "true" | "false" => {
                            let b = c == "true";
                            e.kind = ExprKind::ConstBool(b);
                            X {
                                ty: XTy::UntypedBool,
                                konst: Some(Const::Bool(b)),
                                addressable: false,
                            }
                        }
                        "nil" => {
                            e.kind = ExprKind::Nil;
                            X {
                                ty: XTy::UntypedNil,
                                konst: None,
                                addressable: false,
                            }
                        }
                        _ => {
                            self.err("undefined", line, "cannot use iota outside constant declaration");
                            Self::bad()
                        }
                    },
                    Some(Ent::UniverseBuiltin(b)) => {
                        self.err("call", line, format!("{} (built-in) must be called", b));
                        Self::bad()
                    }
                }
            }
            ExprKind::Unary(op, inner) => {
                let op = *op;
                let x = self.expr(inner);
                self.tick("operand");
                match op {
                    UnOp::Neg => match (&x.ty, &x.konst) {
                        (XTy::UntypedInt, Some(Const::Int(v))) => X {
                            ty: XTy::UntypedInt,
                            konst: Some(Const::Int(-*v)),
                            addressable: false,
                        },
                        (XTy::UntypedFloat, Some(Const::Float(v))) => X {
                            ty: XTy::UntypedFloat,
                            konst: Some(Const::Float(v.neg().unwrap_or(*v))),
                            addressable: false,
                        },
                        (XTy::T(t), _) if is_numeric(t) => Self::val(t.clone()),
                        (XTy::Opaque, _) => Self::bad(),
                        (t, _) => {
                            self.err("operand", line, format!("operator - not defined on {:?}", t));
                            Self::bad()
                        }
                    },
                    UnOp::Not => match (&x.ty, &x.konst) {
                        (XTy::UntypedBool, Some(Const::Bool(b))) => X {
                            ty: XTy::UntypedBool,
                            konst: Some(Const::Bool(!*b)),
                            addressable: false,
                        },
                        (XTy::UntypedBool, None) => X {
                            ty: XTy::UntypedBool,
                            konst: None,
                            addressable: false,
                        },
                        (XTy::T(Ty::Bool), _) => Self::val(Ty::Bool),
                        (XTy::Opaque, _) => Self::bad(),
                        (t, _) => {
                            self.err("operand", line, format!("operator ! not defined on {:?}", t));
                            Self::bad()
                        }
                    },
                    UnOp::Addr => {
                        let is_composite = matches!(inner.kind, ExprKind::Composite(..));
                        match &x.ty {
                            XTy::T(t) if x.addressable || is_composite => Self::val(Ty::Ptr(Box::new(t.clone()))),
                            XTy::Opaque => Self::bad(),
                            _ => {
                                self.err("operand", line, "cannot take address of expression");
                                Self::bad()
                            }
                        }
                    }
                    UnOp::Deref => match &x.ty {
                        XTy::T(Ty::Ptr(t)) => X {
                            ty: XTy::T((**t).clone()),
                            konst: None,
                            addressable: true,
                        },
                        XTy::Opaque => Self::bad(),
                        t => {
                            self.err("operand", line, format!("invalid operation: cannot indirect {:?}", t));
                            Self::bad()
                        }
                    },
                }
            }
            ExprKind::Binary(op, l, r) => {
                let op = *op;
                let xl = self.expr(l);
                let xr = self.expr(r);
                self.binary(op, l, xl, r, xr, line)
            }
            ExprKind::Selector(obj, field) => {
                // package-qualified?
                if let ExprKind::Ident(p) = &obj.kind {
                    if let Some(Ent::Package(path)) = self.lookup(p) {
                        self.used_imports.insert(p.clone());
                        let q = (path.clone(), field.clone());
                        e.kind = ExprKind::Qualified(q.0.clone(), q.1.clone());
                        if path == "fmt" && matches!(q.1.as_str(), "Sprintf" | "Print" | "Println" | "Printf" | "Sprint") {
                            // typed at call sites
                            return X {
                                ty: XTy::Opaque,
                                konst: None,
                                addressable: false,
                            };
                        }
                        if path == "fmt" {
                            self.err("undefined", line, format!("undefined: fmt.{} (not modelled)", q.1));
                        }
                        return Self::bad();
                    }
                }
                let field = field.clone();
                let x = self.expr(obj);
                self.tick("selector");
                let (base, through_ptr) = match &x.ty {
                    XTy::T(Ty::Ptr(inner)) => ((**inner).clone(), true),
                    XTy::T(t) => (t.clone(), false),
                    XTy::Opaque => return Self::bad(),
                    t => {
                        self.err("selector", line, format!("{:?} has no field or method {}", t, field));
                        return Self::bad();
                    }
                };
                match &base {
                    Ty::Named(n) => match self.types.get(n).cloned() {
                        Some(TypeDef::Struct(fs)) => {
                            if let Some((_, ft)) = fs.iter().find(|(fname, _)| *fname == field) {
                                return X {
                                    ty: XTy::T(ft.clone()),
                                    konst: None,
                                    addressable: x.addressable || through_ptr,
                                };
                            }
                            if let Some(sig) = self.methods.get(&(n.clone(), field.clone())).cloned() {
                                return Self::val(Ty::Func(sig.params, sig.ret.map(Box::new)));
                            }
                            self.err("selector", line, format!("{} has no field or method {}", n, field));
                            Self::bad()
                        }
                        Some(TypeDef::Interface(ms)) => {
                            if through_ptr {
                                self.err("selector", line, format!("pointer to interface has no method {}", field));
                                return Self::bad();
                            }
                            if let Some((_, ps, r)) = ms.iter().find(|(m, _, _)| *m == field) {
                                return Self::val(Ty::Func(ps.clone(), r.clone().map(Box::new)));
                            }
                            self.err("selector", line, format!("{} has no method {}", n, field));
                            Self::bad()
                        }
                        None => {
                            if self.is_opaque_ty(&base) {
                                return Self::bad();
                            }
                            self.err("selector", line, format!("{} has no field or method {}", n, field));
                            Self::bad()
                        }
                    },
                    t => {
                        self.err("selector", line, format!("{} has no field or method {}", t, field));
                        Self::bad()
                    }
                }
            }
            ExprKind::SliceExpr(arr, lo, hi, max) => {
                let xa = self.expr(arr);
                self.tick("slice-expr");
                for b in [lo, hi, max].into_iter().flatten() {
                    let xb = self.expr(b);
                    match (&xb.ty, &xb.konst) {
                        (XTy::UntypedInt, Some(Const::Int(v))) => {
                            if *v < 0 {
                                self.err("index", line, format!("invalid argument: index {} must not be negative", v));
                            }
                            let c = Const::Int(*v);
                            self.materialize(b, &c, &Ty::Int(IntKind::Int));
                        }
                        (XTy::T(Ty::Int(_)), _) | (XTy::Opaque, _) => {}
                        (t, _) => self.err("index", line, format!("invalid argument: slice index of type {:?} must be integer", t)),
                    }
                }
                match &xa.ty {
                    XTy::T(Ty::Slice(_)) => X { ty: xa.ty.clone(), konst: None, addressable: false },
                    XTy::Opaque => Self::bad(),
                    t => {
                        // strings and arrays can be sliced too; the emitted Go never does
                        self.err("unsupported-builtin", line, format!("slice expression on {:?} is outside the modelled subset", t));
                        Self::bad()
                    }
                }
            }
            ExprKind::Index(arr, idx) => {
                let xa = self.expr(arr);
                let xi = self.expr(idx);
                self.tick("index");
                // index must be integer
                let mut const_idx: Option<i128> = None;
                match (&xi.ty, &xi.konst) {
                    (XTy::UntypedInt, Some(Const::Int(v))) => {
                        const_idx = Some(*v);
                        if *v < 0 {
                            self.err("index", line, format!("invalid argument: index {} must not be negative", v));
                        }
                        let c = Const::Int(*v);
                        let t = Ty::Int(IntKind::Int);
                        if *v >= 0 && self.representable(&c, &t, line) {
                            self.materialize(idx, &c, &t);
                        }
                    }
                    (XTy::UntypedFloat, Some(Const::Float(f))) if f.is_int() => {
                        const_idx = Some(f.n);
                        let c = Const::Int(f.n);
                        self.materialize(idx, &c, &Ty::Int(IntKind::Int));
                    }
                    (XTy::T(Ty::Int(_)), _) => {}
                    (XTy::Opaque, _) => {}
                    (t, _) => self.err("index", line, format!("invalid argument: index of type {:?} must be integer", t)),
                }
                match &xa.ty {
                    XTy::T(Ty::Array(n, elem)) => {
                        if let Some(ci) = const_idx {
                            if ci >= *n as i128 {
                                self.err("index", line, format!("invalid argument: index {} out of bounds [0:{}]", ci, n));
                            }
                        }
                        X {
                            ty: XTy::T((**elem).clone()),
                            konst: None,
                            addressable: xa.addressable,
                        }
                    }
                    XTy::T(Ty::Ptr(inner)) if matches!(**inner, Ty::Array(..)) => {
                        if let Ty::Array(_, elem) = &**inner {
                            X {
                                ty: XTy::T((**elem).clone()),
                                konst: None,
                                addressable: true,
                            }
                        } else {
                            unreachable!()
                        }
                    }
                    XTy::T(Ty::Slice(elem)) => X {
                        ty: XTy::T((**elem).clone()),
                        konst: None,
                        addressable: true,
                    },
                    XTy::T(Ty::Str) => Self::val(Ty::Int(IntKind::U8)),
                    XTy::UntypedStr => {
                        if let (Some(Const::Str(s)), Some(ci)) = (&xa.konst, const_idx) {
                            if ci >= s.len() as i128 {
                                self.err("index", line, "index out of range for constant string");
                            }
                        }
                        let c = xa.konst.clone();
                        if let Some(c) = c {
                            self.materialize(arr, &c, &Ty::Str);
                        }
                        Self::val(Ty::Int(IntKind::U8))
                    }
                    XTy::Opaque => Self::bad(),
                    t => {
                        self.err("index", line, format!("invalid operation: cannot index value of type {:?}", t));
                        Self::bad()
                    }
                }
            }
            ExprKind::Assert(inner, tyx) => {
                let tyx = tyx.clone();
                let x = self.expr(inner);
                self.tick("assert");
                let Some(target) = self.resolve_ty(&tyx, line) else {
                    return Self::bad();
                };
                match &x.ty {
                    XTy::T(t) if self.is_iface(t) => {
                        if !self.is_iface(&target) && !self.implements(&target, t) {
                            self.err("assert", line, format!("impossible type assertion: {} does not implement {}", target, t));
                        }
                        // record the resolved type for the interpreter
                        e.ty = Some(target.clone());
                        Self::val(target)
                    }
                    XTy::Opaque => Self::bad(),
                    t => {
                        self.err("assert", line, format!("invalid operation: {:?} is not an interface", t));
                        Self::bad()
                    }
                }
            }
            ExprKind::TypeSwitchGuard(_) => {
                self.err("syntax", line, "use of .(type) outside type switch");
                Self::bad()
            }
            ExprKind::Composite(tyx, elems) => {
                let tyx = tyx.clone();
                self.tick("composite");
                let Some(t) = self.resolve_ty(&tyx, line) else {
                    for (_, v) in elems.iter_mut() {
                        self.expr(v);
                    }
                    return Self::bad();
                };
                match &t {
                    Ty::Named(n) => {
                        let def = self.types.get(n).cloned();
                        match def {
                            Some(TypeDef::Struct(fs)) => {
                                let mut seen: HashSet<String> = HashSet::new();
                                let keyed = elems.iter().any(|(k, _)| k.is_some());
                                if keyed && elems.iter().any(|(k, _)| k.is_none()) {
                                    self.err("composite", line, "mixture of field:value and value elements in struct literal");
                                }
                                if !keyed && !elems.is_empty() && elems.len() != fs.len() {
                                    self.err("composite", line, "too few/many values in struct literal");
                                }
                                for (i, (k, v)) in elems.iter_mut().enumerate() {
                                    let x = self.expr(v);
                                    let fty = match k {
                                        Some(k) => {
                                            if !seen.insert(k.clone()) {
                                                self.err("composite", line, format!("duplicate field name {} in struct literal", k));
                                            }
                                            match fs.iter().find(|(f, _)| f == k) {
                                                Some((_, ft)) => Some(ft.clone()),
                                                None => {
                                                    self.err("composite", line, format!("unknown field {} in struct literal of type {}", k, n));
                                                    None
                                                }
                                            }
                                        }
                                        None => fs.get(i).map(|(_, ft)| ft.clone()),
                                    };
                                    if let Some(ft) = fty {
                                        self.assign_to(v, &x, &ft, "struct literal field");
                                    }
                                }
                                Self::val(t)
                            }
                            Some(TypeDef::Interface(_)) => {
                                self.err("composite", line, format!("invalid composite literal type {}", n));
                                Self::bad()
                            }
                            None => {
                                if self.is_opaque_ty(&t) {
                                    return Self::bad();
                                }
                                self.err("composite", line, format!("invalid composite literal type {}", n));
                                Self::bad()
                            }
                        }
                    }
                    Ty::Array(n, elem) => {
                        if elems.len() as u64 > *n {
                            self.err("composite", line, format!("index {} out of bounds: array literal has too many elements", elems.len()));
                        }
                        for (k, v) in elems.iter_mut() {
                            if k.is_some() {
                                self.err("composite", line, "keyed array literal not modelled");
                            }
                            let x = self.expr(v);
                            self.assign_to(v, &x, elem, "array literal element");
                        }
                        Self::val(t)
                    }
                    Ty::Slice(elem) => {
                        for (_, v) in elems.iter_mut() {
                            let x = self.expr(v);
                            self.assign_to(v, &x, elem, "slice literal element");
                        }
                        Self::val(t)
                    }
                    other => {
                        self.err("composite", line, format!("invalid composite literal type {}", other));
                        Self::bad()
                    }
                }
            }
            ExprKind::Call(f, args) => self.call(f, args, line, e_slot_none()),
            // already-annotated nodes never reach the checker
            _ => Self::bad(),
        }
    }

    fn binary(&mut self, op: BinOp, l: &mut Expr, xl: X, r: &mut Expr, xr: X, line: Pos) -> X {
        self.tick("operand");
        if xl.ty == XTy::Opaque || xr.ty == XTy::Opaque {
            return Self::bad();
        }
        if xl.ty == XTy::Void || xr.ty == XTy::Void {
            self.err("operand", line, "call without value used as operand");
            return Self::bad();
        }
        let untyped = |t: &XTy| matches!(t, XTy::UntypedInt | XTy::UntypedFloat | XTy::UntypedStr | XTy::UntypedBool);
        let is_cmp = matches!(op, BinOp::Eq | BinOp::Ne | BinOp::Lt | BinOp::Le | BinOp::Gt | BinOp::Ge);
        // both constants: fold
        if let (Some(cl), Some(cr)) = (&xl.konst, &xr.konst) {
            if untyped(&xl.ty) && untyped(&xr.ty) {
                return self.fold(op, cl.clone(), cr.clone(), line);
            }
        }
        // nil comparisons
        if xl.ty == XTy::UntypedNil || xr.ty == XTy::UntypedNil {
            if !matches!(op, BinOp::Eq | BinOp::Ne) {
                self.err("operand", line, format!("operator {} not defined on nil", op.sym()));
                return Self::bad();
            }
            let (other_x, other_e, nil_e) = if xl.ty == XTy::UntypedNil { (&xr, r, l) } else { (&xl, l, r) };
            match &other_x.ty {
                XTy::T(t) if matches!(t, Ty::Ptr(_) | Ty::Slice(_) | Ty::Func(..)) || self.is_iface(t) => {
                    nil_e.ty = Some(t.clone());
                    let _ = other_e;
                }
                XTy::UntypedNil => self.err("operand", line, "invalid operation: nil == nil"),
                t => self.err("operand", line, format!("invalid operation: mismatched types {:?} and untyped nil", t)),
            }
            return X {
                ty: XTy::UntypedBool,
                konst: None,
                addressable: false,
            };
        }
        // convert the untyped side to the typed side
        let (tl, tr) = (xl.ty.clone(), xr.ty.clone());
        let operand_ty: Ty = match (&tl, &tr) {
            (XTy::T(a), XTy::T(b)) => {
                if a != b {
                    // interface vs concrete comparison is allowed if concrete implements iface
                    if is_cmp && self.is_iface(a) && !self.is_iface(b) && self.implements(b, a) {
                        self.assign_to(r, &xr, a, "comparison");
                        a.clone()
                    } else if is_cmp && self.is_iface(b) && !self.is_iface(a) && self.implements(a, b) {
                        self.assign_to(l, &xl, b, "comparison");
                        b.clone()
                    } else {
                        self.err("operand", line, format!("invalid operation: mismatched types {} and {}", a, b));
                        return Self::bad();
                    }
                } else {
                    a.clone()
                }
            }
            (XTy::T(a), _) => {
                if self.is_iface(a) {
                    self.assign_to(r, &xr, a, "operand");
                } else {
                    match &xr.konst {
                        Some(c) => {
                            if self.representable(c, a, line) {
                                self.materialize(r, c, a);
                            }
                        }
                        None => {
                            if !(tr == XTy::UntypedBool && *a == Ty::Bool) {
                                self.err("operand", line, format!("mismatched types {} and {:?}", a, tr));
                            }
                        }
                    }
                }
                a.clone()
            }
            (_, XTy::T(b)) => {
                if self.is_iface(b) {
                    self.assign_to(l, &xl, b, "operand");
                } else {
                    match &xl.konst {
                        Some(c) => {
                            if self.representable(c, b, line) {
                                self.materialize(l, c, b);
                            }
                        }
                        None => {
                            if !(tl == XTy::UntypedBool && *b == Ty::Bool) {
                                self.err("operand", line, format!("mismatched types {:?} and {}", tl, b));
                            }
                        }
                    }
                }
                b.clone()
            }
            _ => {
                // both untyped, at least one non-constant (only untyped bools can be non-constant)
                if tl == XTy::UntypedBool && tr == XTy::UntypedBool {
                    if let Some(c) = &xl.konst {
                        self.materialize(l, c, &Ty::Bool);
                    }
                    if let Some(c) = &xr.konst {
                        self.materialize(r, c, &Ty::Bool);
                    }
                    Ty::Bool
                } else {
                    self.err("operand", line, format!("mismatched untyped operands {:?} and {:?}", tl, tr));
                    return Self::bad();
                }
            }
        };
        // division by constant zero
        if matches!(op, BinOp::Div | BinOp::Rem) {
            self.tick("const-arith");
            let zero = match &xr.konst {
                Some(Const::Int(0)) => true,
                Some(Const::Float(f)) if f.is_zero() => true,
                _ => false,
            };
            if zero && matches!(operand_ty, Ty::Int(_)) {
                self.err("const-div0", line, "invalid operation: division by zero");
            }
        }
        match op {
            BinOp::Add => {
                if is_numeric(&operand_ty) || operand_ty == Ty::Str {
                    Self::val(operand_ty)
                } else {
                    self.err("operand", line, format!("operator + not defined on {}", operand_ty));
                    Self::bad()
                }
            }
            BinOp::Sub | BinOp::Mul | BinOp::Div => {
                if is_numeric(&operand_ty) {
                    Self::val(operand_ty)
                } else {
                    self.err("operand", line, format!("operator {} not defined on {}", op.sym(), operand_ty));
                    Self::bad()
                }
            }
            BinOp::Rem => {
                if matches!(operand_ty, Ty::Int(_)) {
                    Self::val(operand_ty)
                } else {
                    self.err("operand", line, format!("operator % not defined on {}", operand_ty));
                    Self::bad()
                }
            }
            BinOp::And | BinOp::Or => {
                if operand_ty == Ty::Bool {
                    if tl == XTy::T(Ty::Bool) || tr == XTy::T(Ty::Bool) {
                        Self::val(Ty::Bool)
                    } else {
                        X {
                            ty: XTy::UntypedBool,
                            konst: None,
                            addressable: false,
                        }
                    }
                } else {
                    self.err("operand", line, format!("operator {} not defined on {}", op.sym(), operand_ty));
                    Self::bad()
                }
            }
            BinOp::Lt | BinOp::Le | BinOp::Gt | BinOp::Ge => {
                if is_numeric(&operand_ty) || operand_ty == Ty::Str {
                    X {
                        ty: XTy::UntypedBool,
                        konst: None,
                        addressable: false,
                    }
                } else {
                    self.err("operand", line, format!("operator {} not defined on {}", op.sym(), operand_ty));
                    Self::bad()
                }
            }
            BinOp::Eq | BinOp::Ne => {
                let mut seen = Vec::new();
                if self.comparable(&operand_ty, &mut seen) {
                    X {
                        ty: XTy::UntypedBool,
                        konst: None,
                        addressable: false,
                    }
                } else {
                    self.err("operand", line, format!("invalid operation: {} cannot be compared", operand_ty));
                    Self::bad()
                }
            }
        }
    }

    fn fold(&mut self, op: BinOp, l: Const, r: Const, line: Pos) -> X {
        self.tick("const-arith");
        let ux = |ty: XTy, c: Const| X {
            ty,
            konst: Some(c),
            addressable: false,
        };
        let cmp_res = |b: bool| X {
            ty: XTy::UntypedBool,
            konst: Some(Const::Bool(b)),
            addressable: false,
        };
        match (l, r) {
            (Const::Int(a), Const::Int(b)) => {
                let r = match op {
                    BinOp::Add => a.checked_add(b),
                    BinOp::Sub => a.checked_sub(b),
                    BinOp::Mul => a.checked_mul(b),
                    BinOp::Div => {
                        if b == 0 {
                            self.err("const-div0", line, "invalid operation: division by zero");
                            return Self::bad();
                        }
                        Some(a / b)
                    }
                    BinOp::Rem => {
                        if b == 0 {
                            self.err("const-div0", line, "invalid operation: division by zero");
                            return Self::bad();
                        }
                        Some(a % b)
                    }
                    BinOp::Lt => return cmp_res(a < b),
                    BinOp::Le => return cmp_res(a <= b),
                    BinOp::Gt => return cmp_res(a > b),
                    BinOp::Ge => return cmp_res(a >= b),
                    BinOp::Eq => return cmp_res(a == b),
                    BinOp::Ne => return cmp_res(a != b),
                    BinOp::And | BinOp::Or => {
                        self.err("operand", line, "operator not defined on untyped int");
                        return Self::bad();
                    }
                };
                match r {
                    Some(v) => ux(XTy::UntypedInt, Const::Int(v)),
                    None => {
                        self.err("const-overflow", line, "constant arithmetic overflow");
                        Self::bad()
                    }
                }
            }
            (l @ (Const::Float(_) | Const::Int(_)), r @ (Const::Float(_) | Const::Int(_))) => {
                let to_rat = |c: &Const| match c {
                    Const::Int(v) => Rat::from_int(*v),
                    Const::Float(r) => *r,
                    _ => unreachable!(),
                };
                let (a, b) = (to_rat(&l), to_rat(&r));
                let res = match op {
                    BinOp::Add => a.add(b),
                    BinOp::Sub => a.sub(b),
                    BinOp::Mul => a.mul(b),
                    BinOp::Div => {
                        if b.is_zero() {
                            self.err("const-div0", line, "invalid operation: division by zero");
                            return Self::bad();
                        }
                        a.div(b)
                    }
                    BinOp::Rem | BinOp::And | BinOp::Or => {
                        self.err("operand", line, format!("operator {} not defined on untyped float", op.sym()));
                        return Self::bad();
                    }
                    _ => {
                        let Some(o) = a.cmp(b) else {
                            self.err("unsupported-const", line, "constant comparison overflow in model");
                            return Self::bad();
                        };
                        use std::cmp::Ordering::*;
                        return cmp_res(match op {
                            BinOp::Lt => o == Less,
                            BinOp::Le => o != Greater,
                            BinOp::Gt => o == Greater,
                            BinOp::Ge => o != Less,
                            BinOp::Eq => o == Equal,
                            _ => o != Equal,
                        });
                    }
                };
                match res {
                    Some(v) => ux(XTy::UntypedFloat, Const::Float(v)),
                    None => {
                        self.err("unsupported-const", line, "constant arithmetic exceeds the model's exact range");
                        Self::bad()
                    }
                }
            }
            (Const::Str(a), Const::Str(b)) => match op {
                BinOp::Add => {
                    let mut v = a.clone();
                    v.extend_from_slice(&b);
                    ux(XTy::UntypedStr, Const::Str(v))
                }
                BinOp::Lt => cmp_res(a < b),
                BinOp::Le => cmp_res(a <= b),
                BinOp::Gt => cmp_res(a > b),
                BinOp::Ge => cmp_res(a >= b),
                BinOp::Eq => cmp_res(a == b),
                BinOp::Ne => cmp_res(a != b),
                _ => {
                    self.err("operand", line, format!("operator {} not defined on untyped string", op.sym()));
                    Self::bad()
                }
            },
            (Const::Bool(a), Const::Bool(b)) => match op {
                BinOp::And => cmp_res(a && b),
                BinOp::Or => cmp_res(a || b),
                BinOp::Eq => cmp_res(a == b),
                BinOp::Ne => cmp_res(a != b),
                _ => {
                    self.err("operand", line, format!("operator {} not defined on untyped bool", op.sym()));
                    Self::bad()
                }
            },
            (a, b) => {
                self.err("operand", line, format!("mismatched constant kinds {:?} and {:?}", a, b));
                Self::bad()
            }
        }
    }

    fn call(&mut self, f: &mut Expr, args: &mut Vec<Expr>, line: Pos, _slot: ()) -> X {
        self.tick("call");
        // conversions and builtins: callee is an identifier resolving to a type / builtin
        if let ExprKind::Ident(name) = &f.kind {
            let name = name.clone();
            match self.lookup(&name) {
                Some(Ent::UniverseType(t)) | Some(Ent::Type(t)) => {
                    return self.conversion(t, f, args, line);
                }
                Some(Ent::UniverseBuiltin(b)) => {
                    f.kind = ExprKind::Builtin(b.to_string());
                    return self.builtin(b, args, line);
                }
                _ => {}
            }
        }
        let xf = self.expr(f);
        if let ExprKind::Qualified(p, m) = &f.kind {
            if p == "fmt" {
                let m = m.clone();
                // variadic ...any
                let mut first = true;
                for a in args.iter_mut() {
                    let x = self.expr(a);
                    if first && matches!(m.as_str(), "Sprintf" | "Printf") {
                        self.assign_to(a, &x, &Ty::Str, "format string");
                    } else {
                        self.assign_to(a, &x, &Ty::Named("any".into()), "fmt argument");
                    }
                    first = false;
                }
                if matches!(m.as_str(), "Sprintf" | "Printf") && args.is_empty() {
                    self.err("call", line, "not enough arguments in call to fmt.Sprintf");
                }
                return match m.as_str() {
                    "Sprintf" | "Sprint" => Self::val(Ty::Str),
                    _ => X {
                        ty: XTy::Opaque, // (n int, err error): usable only as statement
                        konst: None,
                        addressable: false,
                    },
                };
            }
            for a in args.iter_mut() {
                let x = self.expr(a);
                let _ = self.default_type(a, &x);
            }
            return Self::bad();
        }
        match &xf.ty {
            XTy::T(Ty::Func(ps, r)) => {
                if ps.len() != args.len() {
                    for a in args.iter_mut() {
                        self.expr(a);
                    }
                    self.err(
                        "call",
                        line,
                        format!("wrong number of arguments in call: have {}, want {}", args.len(), ps.len()),
                    );
                } else {
                    for (a, p) in args.iter_mut().zip(ps.iter()) {
                        let x = self.expr(a);
                        self.assign_to(a, &x, p, "argument");
                    }
                }
                match r {
                    Some(r) => Self::val((**r).clone()),
                    None => X {
                        ty: XTy::Void,
                        konst: None,
                        addressable: false,
                    },
                }
            }
            XTy::Opaque => {
                for a in args.iter_mut() {
                    let x = self.expr(a);
                    let _ = self.default_type(a, &x);
                }
                Self::bad()
            }
            t => {
                for a in args.iter_mut() {
                    self.expr(a);
                }
                self.err("call", line, format!("invalid operation: cannot call non-function of type {:?}", t));
                Self::bad()
            }
        }
    }

    fn conversion(&mut self, t: Ty, f: &mut Expr, args: &mut Vec<Expr>, line: Pos) -> X {
        self.tick("conversion");
        if args.len() != 1 {
            self.err("call", line, format!("wrong argument count in conversion to {}", t));
            return Self::bad();
        }
        let x = self.expr(&mut args[0]);
        let arg = &mut args[0];
        let ok = match (&x.ty, &t) {
            (XTy::Opaque, _) => true,
            (XTy::UntypedInt | XTy::UntypedFloat, tt) if is_numeric(tt) => {
                if let Some(c) = &x.konst {
                    if self.representable(c, tt, line) {
                        self.materialize(arg, c, tt);
                    }
                }
                true
            }
            (XTy::UntypedInt, Ty::Str) => {
                let _ = self.default_type(arg, &x);
                true
            }
            (XTy::UntypedStr, Ty::Str) => {
                if let Some(c) = &x.konst {
                    self.materialize(arg, c, &Ty::Str);
                }
                true
            }
            (XTy::UntypedBool, Ty::Bool) => {
                let _ = self.default_type(arg, &x);
                true
            }
            (XTy::T(s), tt) if s == tt => true,
            (XTy::T(s), tt) if is_numeric(s) && is_numeric(tt) => true,
            (XTy::T(Ty::Int(_)), Ty::Str) => true,
            // a slice of bytes converts to a string
            (XTy::T(Ty::Slice(e)), Ty::Str) if matches!(**e, Ty::Int(IntKind::U8)) => true,
            (XTy::T(s), tt) if self.is_iface(tt) && self.implements(s, tt) => {
                let xx = x.clone();
                self.assign_to(arg, &xx, tt, "conversion");
                true
            }
            _ => false,
        };
        if !ok {
            self.err("call", line, format!("cannot convert {:?} to type {}", x.ty, t));
            return Self::bad();
        }
        f.kind = ExprKind::Builtin(format!("convert"));
        f.ty = Some(t.clone());
        Self::val(t)
    }

    fn builtin(&mut self, b: &str, args: &mut Vec<Expr>, line: Pos) -> X {
        match b {
            "len" | "cap" => {
                if args.len() != 1 {
                    self.err("call", line, format!("wrong number of arguments for {}", b));
                    return Self::bad();
                }
                let x = self.expr(&mut args[0]);
                match &x.ty {
                    XTy::T(Ty::Str) if b == "len" => {}
                    XTy::UntypedStr if b == "len" => {
                        if let Some(Const::Str(s)) = &x.konst {
                            let n = s.len() as i128;
                            return X {
                                ty: XTy::UntypedInt,
                                konst: Some(Const::Int(n)),
                                addressable: false,
                            };
                        }
                    }
                    XTy::T(Ty::Slice(_)) | XTy::T(Ty::Array(..)) => {}
                    XTy::Opaque => {}
                    t => self.err("call", line, format!("invalid argument for {}: {:?}", b, t)),
                }
                Self::val(Ty::Int(IntKind::Int))
            }
            "append" => {
                if args.is_empty() {
                    self.err("call", line, "not enough arguments for append");
                    return Self::bad();
                }
                let x = self.expr(&mut args[0]);
                let st = match &x.ty {
                    XTy::T(Ty::Slice(elem)) => Some((**elem).clone()),
                    XTy::UntypedNil => {
                        self.err("call", line, "first argument to append must be a typed slice; have untyped nil");
                        None
                    }
                    XTy::Opaque => None,
                    t => {
                        self.err("call", line, format!("invalid argument: {:?} is not a slice", t));
                        None
                    }
                };
                for a in args.iter_mut().skip(1) {
                    let xa = self.expr(a);
                    if let Some(elem) = &st {
                        self.assign_to(a, &xa, elem, "append element");
                    }
                }
                match st {
                    Some(elem) => Self::val(Ty::Slice(Box::new(elem))),
                    None => Self::bad(),
                }
            }
            "panic" => {
                if args.len() != 1 {
                    self.err("call", line, "wrong number of arguments for panic");
                    return Self::bad();
                }
                let x = self.expr(&mut args[0]);
                self.assign_to(&mut args[0], &x, &Ty::Named("any".into()), "panic argument");
                X {
                    ty: XTy::Void,
                    konst: None,
                    addressable: false,
                }
            }
            "print" | "println" => {
                for a in args.iter_mut() {
                    let x = self.expr(a);
                    let _ = self.default_type(a, &x);
                }
                X {
                    ty: XTy::Void,
                    konst: None,
                    addressable: false,
                }
            }
            other => {
                for a in args.iter_mut() {
                    self.expr(a);
                }
                self.err("unsupported-builtin", line, format!("builtin {} not modelled", other));
                Self::bad()
            }
        }
    }

    // ------------------------------------------------------------ statements

    fn block(&mut self, b: &mut Block) {
        self.scopes.push(HashMap::new());
        for s in b.stmts.iter_mut() {
            self.stmt(s);
        }
        self.scopes.pop();
    }

    fn stmt(&mut self, s: &mut Stmt) {
        let line = s.line;
        match &mut s.kind {
            StmtKind::Expr(e) => {
                self.tick("expr-stmt");
                // only calls (not conversions, not append/len/cap) may be statements
                let mut ok = false;
                if let ExprKind::Call(f, _) = &e.kind {
                    ok = true;
                    if let ExprKind::Ident(n) = &f.kind {
                        match self.lookup(n) {
                            Some(Ent::UniverseBuiltin(b)) => {
                                if matches!(b, "append" | "cap" | "complex" | "imag" | "len" | "make" | "new" | "real" | "max" | "min") {
                                    ok = false;
                                    self.err("expr-stmt", line, format!("{}(...) (value) is not used", b));
                                }
                            }
                            Some(Ent::UniverseType(_)) | Some(Ent::Type(_)) => {
                                ok = false;
                                self.err("expr-stmt", line, "conversion result is not used");
                            }
                            _ => {}
                        }
                    }
                }
                let x = self.expr(e);
                if !ok && matches!(e.kind, ExprKind::Call(..)) {
                    // already reported
                } else if !ok {
                    self.err("expr-stmt", line, "expression is not used");
                }
                let _ = x;
            }
            StmtKind::Go(e) => {
                self.tick("go-stmt");
                if !matches!(e.kind, ExprKind::Call(..)) {
                    self.err("go-stmt", line, "expression in go must be function call");
                }
                if let ExprKind::Call(f, _) = &e.kind {
                    if let ExprKind::Ident(n) = &f.kind {
                        if let Some(Ent::UniverseType(_)) | Some(Ent::Type(_)) = self.lookup(n) {
                            self.err("go-stmt", line, "go requires function call, not conversion");
                        }
                    }
                }
                let _ = self.expr(e);
            }
            StmtKind::VarDecl(name, tyx, init) => {
                let t = self.resolve_ty(tyx, line);
                if let Some(init) = init {
                    let x = self.expr(init);
                    if let Some(t) = &t {
                        self.assign_to(init, &x, t, "variable declaration");
                    }
                }
                let name = name.clone();
                match t {
                    Some(t) => self.declare_local(&name, t, line, false),
                    None => self.declare_local(&name, Ty::Named("<error>.T".into()), line, false),
                }
            }
            StmtKind::Assign(lhs, rhs) => {
                self.tick("assign-stmt");
                // plain identifier on the LHS is not a "use"
                let lx = if let ExprKind::Ident(n) = &lhs.kind {
                    let n = n.clone();
                    if n == "_" {
                        let x = self.expr(rhs);
                        let _ = self.default_type(rhs, &x);
                        return;
                    }
                    match self.lookup(&n) {
                        Some(Ent::Local(t, _)) => {
                            lhs.kind = ExprKind::Local(n);
                            lhs.ty = Some(t.clone());
                            X {
                                ty: XTy::T(t),
                                konst: None,
                                addressable: true,
                            }
                        }
                        Some(_) => {
                            self.err("assign", line, format!("cannot assign to {} (neither addressable nor a map index expression)", n));
                            Self::bad()
                        }
                        None => {
                            self.err("undefined", line, format!("undefined: {}", n));
                            Self::bad()
                        }
                    }
                } else {
                    let x = self.expr(lhs);
                    if !x.addressable && x.ty != XTy::Opaque {
                        self.err("assign", line, "cannot assign to expression (not addressable)");
                    }
                    x
                };
                let rx = self.expr(rhs);
                match &lx.ty {
                    XTy::T(t) => self.assign_to(rhs, &rx, t, "assignment"),
                    _ => {
                        let _ = self.default_type(rhs, &rx);
                    }
                }
            }
            StmtKind::Return(e) => {
                self.tick("return");
                let want = self.cur_ret.clone();
                match (e, want) {
                    (None, None) => {}
                    (None, Some(_)) => self.err("return", line, "not enough return values"),
                    (Some(e), None) => {
                        self.expr(e);
                        self.err("return", line, "too many return values");
                    }
                    (Some(e), Some(t)) => {
                        let x = self.expr(e);
                        self.assign_to(e, &x, &t, "return statement");
                    }
                }
            }
            StmtKind::If(cond, then, els) => {
                self.tick("if");
                let x = self.expr(cond);
                match &x.ty {
                    XTy::T(Ty::Bool) | XTy::UntypedBool => {
                        let _ = self.default_type(cond, &x);
                    }
                    XTy::Opaque => {}
                    t => self.err("operand", line, format!("non-boolean condition in if statement ({:?})", t)),
                }
                self.block(then);
                if let Some(b) = els {
                    self.block(b);
                }
            }
            StmtKind::For(body) => {
                self.loop_depth += 1;
                let sd = self.switch_depth;
                self.switch_depth = 0;
                self.block(body);
                self.switch_depth = sd;
                self.loop_depth -= 1;
            }
            StmtKind::Break => {
                self.tick("break");
                if self.loop_depth == 0 && self.switch_depth == 0 {
                    self.err("break", line, "break is not in a loop, switch, or select");
                }
            }
            StmtKind::Switch(tag, cases, default) => {
                self.tick("switch");
                let x = self.expr(tag);
                let tag_ty = match self.default_type(tag, &x) {
                    XTy::T(t) => Some(t),
                    XTy::Void => {
                        self.err("switch", line, "switch tag has no value");
                        None
                    }
                    _ => None,
                };
                if let Some(t) = &tag_ty {
                    let mut seen = Vec::new();
                    if !self.comparable(t, &mut seen) {
                        self.err("switch", line, format!("cannot switch on value of type {}", t));
                    }
                }
                let mut seen_consts: Vec<Const> = Vec::new();
                self.switch_depth += 1;
                for (c, body) in cases.iter_mut() {
                    let cx = self.expr(c);
                    if let Some(k) = &cx.konst {
                        // duplicate bool constants are allowed by gc
                        if !matches!(k, Const::Bool(_)) {
                            if seen_consts.contains(k) {
                                self.err("switch-dup", c.line, format!("duplicate case {:?} in expression switch", k));
                            }
                            seen_consts.push(k.clone());
                        }
                    }
                    if let Some(t) = &tag_ty {
                        match &cx.ty {
                            XTy::T(ct) if ct != t => {
                                if !(self.is_iface(t) && self.implements(ct, t)) {
                                    self.err("switch", c.line, format!("mismatched types {} and {} in switch case", ct, t));
                                }
                            }
                            _ => self.assign_to(c, &cx, t, "switch case"),
                        }
                    }
                    self.block(body);
                }
                if let Some(b) = default {
                    self.block(b);
                }
                self.switch_depth -= 1;
            }
            StmtKind::TypeSwitch(bind, e, cases, default) => {
                self.tick("type-switch");
                let x = self.expr(e);
                let it = match &x.ty {
                    XTy::T(t) if self.is_iface(t) => Some(t.clone()),
                    XTy::Opaque => None,
                    t => {
                        self.err("type-switch", line, format!("{:?} is not an interface", t));
                        None
                    }
                };
                let bind_id_start = self.locals.len();
                let mut seen_types: Vec<Ty> = Vec::new();
                self.switch_depth += 1;
                let mut any_used = false;
                let bind_name = bind.clone();
                for (tyx, body) in cases.iter_mut() {
                    let ct = self.resolve_ty(tyx, line);
                    if let (Some(ct), Some(it)) = (&ct, &it) {
                        if seen_types.contains(ct) {
                            self.err("switch-dup", line, format!("duplicate case {} in type switch", ct));
                        }
                        seen_types.push(ct.clone());
                        if !self.is_iface(ct) && !self.implements(ct, it) {
                            self.err("type-switch", line, format!("impossible type switch case: {} cannot have dynamic type {}", it, ct));
                        }
                    }
                    self.scopes.push(HashMap::new());
                    if let Some(b) = &bind_name {
                        let bt = ct.clone().or(it.clone()).unwrap_or(Ty::Named("<error>.T".into()));
                        self.declare_local(b, bt, line, true);
                    }
                    let idx = self.locals.len();
                    self.block(body);
                    if bind_name.is_some() && idx > 0 && self.locals[idx - 1].used {
                        any_used = true;
                    }
                    self.scopes.pop();
                }
                if let Some(b) = default {
                    self.scopes.push(HashMap::new());
                    if let Some(bn) = &bind_name {
                        let bt = it.clone().unwrap_or(Ty::Named("<error>.T".into()));
                        self.declare_local(bn, bt, line, true);
                    }
                    let idx = self.locals.len();
                    self.block(b);
                    if bind_name.is_some() && idx > 0 && self.locals[idx - 1].used {
                        any_used = true;
                    }
                    self.scopes.pop();
                }
                self.switch_depth -= 1;
                let _ = bind_id_start;
                if let Some(b) = &bind_name {
                    self.tick("unused-var");
                    if !any_used && b != "_" {
                        self.err("unused-var", line, format!("{} declared and not used", b));
                    }
                }
            }
            StmtKind::Block(b) => self.block(b),
        }
    }
}

fn e_slot_none() {}

/// Go's "terminating statement" analysis.
fn terminating(b: &Block) -> bool {
    match b.stmts.last() {
        None => false,
        Some(s) => stmt_terminating(s),
    }
}

fn has_break(b: &Block) -> bool {
    b.stmts.iter().any(|s| match &s.kind {
        StmtKind::Break => true,
        StmtKind::If(_, t, e) => has_break(t) || e.as_ref().map(has_break).unwrap_or(false),
        StmtKind::Block(b) => has_break(b),
        // breaks inside nested for/switch refer to those
        _ => false,
    })
}

fn stmt_terminating(s: &Stmt) -> bool {
    match &s.kind {
        StmtKind::Return(_) => true,
        StmtKind::Expr(e) => {
            matches!(&e.kind, ExprKind::Call(f, _) if matches!(&f.kind, ExprKind::Builtin(b) if b == "panic"))
        }
        StmtKind::Block(b) => terminating(b),
        StmtKind::If(_, t, Some(e)) => terminating(t) && terminating(e),
        StmtKind::For(body) => !has_break(body),
        StmtKind::Switch(_, cases, Some(d)) => {
            cases.iter().all(|(_, b)| terminating(b) && !has_break(b)) && terminating(d) && !has_break(d)
        }
        StmtKind::TypeSwitch(_, _, cases, Some(d)) => {
            cases.iter().all(|(_, b)| terminating(b) && !has_break(b)) && terminating(d) && !has_break(d)
        }
        _ => false,
    }
}

pub fn check(mut file: File) -> Result<Program, Vec<GoError>> {
    let mut ck = Ck {
        errs: Vec::new(),
        types: HashMap::new(),
        pkg: HashMap::new(),
        methods: HashMap::new(),
        scopes: Vec::new(),
        locals: Vec::new(),
        cur_ret: None,
        used_imports: HashSet::new(),
        rules: HashMap::new(),
        loop_depth: 0,
        switch_depth: 0,
        opaque_pkgs: HashSet::new(),
    };
    if file.package != "main" {
        ck.err("package", 1, format!("package {} is not main", file.package));
    }
    // imports (file scope)
    let mut foreign = Vec::new();
    let mut import_names: Vec<(String, Pos)> = Vec::new();
    for imp in &file.imports {
        ck.tick("import");
        let name = imp.alias.clone().unwrap_or_else(|| imp.path.rsplit('/').next().unwrap_or("").to_string());
        if name.is_empty() || name == "_" || name == "." {
            ck.err("unsupported-import", imp.line, "blank/dot import");
            continue;
        }
        if import_names.iter().any(|(n, _)| *n == name) {
            ck.err("redeclared", imp.line, format!("{} redeclared in this block (import)", name));
            continue;
        }
        if imp.path != "fmt" {
            foreign.push(imp.path.clone());
            ck.opaque_pkgs.insert(name.clone());
        }
        import_names.push((name.clone(), imp.line));
        ck.pkg.insert(name, Ent::Package(imp.path.clone()));
    }
    // pass 1: declare package-level names
    let mut declared: HashMap<String, Pos> = HashMap::new();
    for it in &file.items {
        let (name, line, is_method) = match it {
            Item::Interface { name, line, .. } | Item::Struct { name, line, .. } | Item::Alias { name, line, .. } => {
                (name.clone(), *line, false)
            }
            Item::Func(f) => (f.name.clone(), f.line, f.recv.is_some()),
        };
        if is_method {
            continue;
        }
        ck.tick("redeclared");
        if name == "_" {
            continue;
        }
        if name == "init" {
            if !matches!(it, Item::Func(_)) {
                ck.err("redeclared", line, "cannot declare init - must be func");
            }
            continue;
        }
        if name == "main" && !matches!(it, Item::Func(_)) {
            ck.err("redeclared", line, "cannot declare main - must be func");
        }
        if import_names.iter().any(|(n, _)| *n == name) {
            ck.err("redeclared", line, format!("{} already declared through import of package", name));
            continue;
        }
        if declared.contains_key(&name) {
            ck.err("redeclared", line, format!("{} redeclared in this block", name));
            continue;
        }
        declared.insert(name.clone(), line);
        match it {
            Item::Func(_) => {
                ck.pkg.insert(
                    name,
                    Ent::Func(FuncSig {
                        params: vec![],
                        ret: None,
                    }),
                );
            }
            _ => {
                ck.pkg.insert(name.clone(), Ent::Type(Ty::Named(name)));
            }
        }
    }
    // pass 2: resolve type definitions
    let items = file.items.clone();
    let mut aliases: Vec<(String, TyExpr, Pos)> = Vec::new();
    for it in &items {
        if let Item::Alias { name, ty, line } = it {
            aliases.push((name.clone(), ty.clone(), *line));
        }
    }
    for (name, ty, line) in aliases {
        if let Some(t) = ck.resolve_ty(&ty, line) {
            if ck.pkg.get(&name) == Some(&Ent::Type(Ty::Named(name.clone()))) {
                ck.pkg.insert(name, Ent::Type(t));
            }
        }
    }
    for it in &items {
        match it {
            Item::Struct { name, fields, line } => {
                ck.tick("types");
                let mut fs = Vec::new();
                let mut seen = HashSet::new();
                for (fname, fty) in fields {
                    if fname != "_" && !seen.insert(fname.clone()) {
                        ck.err("types", *line, format!("{} redeclared (duplicate field)", fname));
                    }
                    if let Some(t) = ck.resolve_ty(fty, *line) {
                        fs.push((fname.clone(), t));
                    }
                }
                if ck.pkg.get(name) == Some(&Ent::Type(Ty::Named(name.clone()))) && !ck.types.contains_key(name) {
                    ck.types.insert(name.clone(), TypeDef::Struct(fs));
                }
            }
            Item::Interface { name, methods, line } => {
                ck.tick("types");
                let mut ms = Vec::new();
                let mut seen = HashSet::new();
                for m in methods {
                    if !seen.insert(m.name.clone()) {
                        ck.err("types", *line, format!("duplicate method {}", m.name));
                    }
                    let mut ps = Vec::new();
                    let mut pn = HashSet::new();
                    for p in &m.params {
                        if p.name != "_" && !pn.insert(p.name.clone()) {
                            ck.err("redeclared", *line, format!("{} redeclared in method signature", p.name));
                        }
                        if let Some(t) = ck.resolve_ty(&p.ty, *line) {
                            ps.push(t);
                        }
                    }
                    let r = match &m.ret {
                        Some(r) => ck.resolve_ty(r, *line),
                        None => None,
                    };
                    ms.push((m.name.clone(), ps, r));
                }
                if ck.pkg.get(name) == Some(&Ent::Type(Ty::Named(name.clone()))) && !ck.types.contains_key(name) {
                    ck.types.insert(name.clone(), TypeDef::Interface(ms));
                }
            }
            _ => {}
        }
    }
    // recursive struct of infinite size
    {
        // reachability of `root` from itself through fields held by value; `seen` ends the search on cycles
        // that do not pass through `root` (those are reported at their own structs), at any length
        fn infinite(types: &HashMap<String, TypeDef>, root: &str, t: &Ty, seen: &mut Vec<String>) -> bool {
            match t {
                Ty::Named(n) => {
                    if n == root {
                        return true;
                    }
                    if seen.contains(n) {
                        return false;
                    }
                    seen.push(n.clone());
                    match types.get(n) {
                        Some(TypeDef::Struct(fs)) => fs.iter().any(|(_, ft)| infinite(types, root, ft, seen)),
                        _ => false,
                    }
                }
                Ty::Array(n, e) => *n > 0 && infinite(types, root, e, seen),
                _ => false,
            }
        }
        let names: Vec<String> = ck.types.keys().cloned().collect();
        for n in names {
            if let Some(TypeDef::Struct(fs)) = ck.types.get(&n) {
                let fs = fs.clone();
                if fs.iter().any(|(_, ft)| infinite(&ck.types, &n, ft, &mut Vec::new())) {
                    ck.err("types", declared.get(&n).copied().unwrap_or(0), format!("invalid recursive type {}", n));
                }
            }
        }
    }
    // pass 3: function signatures
    let mut funcs: HashMap<String, usize> = HashMap::new();
    let mut methods: HashMap<(String, String), usize> = HashMap::new();
    for (idx, it) in items.iter().enumerate() {
        if let Item::Func(f) = it {
            let mut ps = Vec::new();
            for p in &f.params {
                if let Some(t) = ck.resolve_ty(&p.ty, f.line) {
                    ps.push(t);
                } else {
                    ps.push(Ty::Named("<error>.T".into()));
                }
            }
            let r = match &f.ret {
                Some(r) => ck.resolve_ty(r, f.line),
                None => None,
            };
            let sig = FuncSig { params: ps, ret: r };
            if let Some(recv) = &f.recv {
                ck.tick("types");
                let rt = ck.resolve_ty(&recv.ty, f.line);
                let base = match rt {
                    Some(Ty::Named(n)) => Some(n),
                    Some(Ty::Ptr(inner)) => match *inner {
                        Ty::Named(n) => Some(n),
                        _ => None,
                    },
                    _ => None,
                };
                match base {
                    Some(b) if matches!(ck.types.get(&b), Some(TypeDef::Struct(_))) => {
                        if let Some(TypeDef::Struct(fs)) = ck.types.get(&b) {
                            if fs.iter().any(|(fname, _)| *fname == f.name) {
                                ck.err("types", f.line, format!("field and method with the same name {}", f.name));
                            }
                        }
                        if ck.methods.contains_key(&(b.clone(), f.name.clone())) {
                            ck.err("types", f.line, format!("method {}.{} already declared", b, f.name));
                        } else {
                            ck.methods.insert((b.clone(), f.name.clone()), sig);
                            methods.insert((b, f.name.clone()), idx);
                        }
                    }
                    _ => ck.err("types", f.line, "invalid receiver type"),
                }
            } else if f.name == "main" {
                if !f.params.is_empty() || f.ret.is_some() {
                    ck.err("types", f.line, "func main must have no arguments and no return values");
                }
                if !funcs.contains_key("main") {
                    funcs.insert("main".into(), idx);
                }
                if let Some(Ent::Func(_)) = ck.pkg.get("main") {
                    ck.pkg.insert("main".into(), Ent::Func(sig));
                }
            } else if f.name == "init" {
                if !f.params.is_empty() || f.ret.is_some() {
                    ck.err("types", f.line, "func init must have no arguments and no return values");
                } else {
                    ck.err("unsupported-init", f.line, "init functions are not modelled");
                }
            } else if f.name != "_" {
                if !funcs.contains_key(&f.name) {
                    funcs.insert(f.name.clone(), idx);
                    if let Some(Ent::Func(_)) = ck.pkg.get(&f.name) {
                        ck.pkg.insert(f.name.clone(), Ent::Func(sig));
                    }
                }
            }
        }
    }
    if !funcs.contains_key("main") {
        ck.err("package", 1, "function main is undeclared in the main package");
    }
    // pass 4: bodies
    for it in file.items.iter_mut() {
        if let Item::Func(f) = it {
            ck.scopes.clear();
            ck.scopes.push(HashMap::new());
            let first_local = ck.locals.len();
            if let Some(recv) = &f.recv {
                if let Some(t) = ck.resolve_ty_quiet(&recv.ty) {
                    ck.declare_local(&recv.name, t, f.line, true);
                }
            }
            for p in &f.params {
                let t = ck.resolve_ty_quiet(&p.ty).unwrap_or(Ty::Named("<error>.T".into()));
                ck.declare_local(&p.name, t, f.line, true);
            }
            ck.cur_ret = match &f.ret {
                Some(r) => ck.resolve_ty_quiet(r),
                None => None,
            };
            // the body block shares the scope of the parameters
            for s in f.body.stmts.iter_mut() {
                ck.stmt(s);
            }
            ck.scopes.pop();
            if f.ret.is_some() {
                ck.tick("missing-return");
                if !terminating(&f.body) {
                    ck.err("missing-return", f.line, format!("missing return in {}", f.name));
                }
            }
            for i in first_local..ck.locals.len() {
                ck.tick("unused-var");
                let l = &ck.locals[i];
                if !l.used && !l.is_param {
                    let (n, ln) = (l.name.clone(), l.line);
                    ck.err("unused-var", ln, format!("{} declared and not used", n));
                }
            }
        }
    }
    for (name, line) in &import_names {
        ck.tick("unused-import");
        if !ck.used_imports.contains(name) {
            ck.err("unused-import", *line, format!("{} imported and not used", name));
        }
    }
    if ck.errs.is_empty() {
        Ok(Program {
            file,
            types: ck.types,
            funcs,
            methods,
            rules_evaluated: ck.rules,
            foreign_imports: foreign,
        })
    } else {
        Err(ck.errs)
    }
}

impl Ck {
    fn resolve_ty_quiet(&mut self, t: &TyExpr) -> Option<Ty> {
        let n = self.errs.len();
        let r = self.resolve_ty(t, 0);
        self.errs.truncate(n);
        r
    }
}
