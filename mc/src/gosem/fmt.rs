//! The slice of Go's fmt/strconv the runtime helpers use: %d %v %s %q, Print, Println,
//! float formatting (%v = 'g' with shortest digits and exponent threshold 21), strconv.Quote.

use super::run::V;

/// shortest round-trip decimal digits and decimal exponent (d.ddd × 10^exp)
fn shortest_digits_f64(f: f64) -> (String, i32) {
    let s = format!("{:e}", f.abs());
    let (mant, exp) = s.split_once('e').unwrap();
    (mant.replace('.', ""), exp.parse().unwrap())
}
fn shortest_digits_f32(f: f32) -> (String, i32) {
    let s = format!("{:e}", f.abs());
    let (mant, exp) = s.split_once('e').unwrap();
    (mant.replace('.', ""), exp.parse().unwrap())
}

fn fmt_g(neg: bool, digits: String, exp: i32) -> String {
    // %v for floats: %g with the shortest representation, but exponent threshold 21
    let mut out = String::new();
    if neg {
        out.push('-');
    }
    let eprec = {
        let mut e = 6i32;
        if (digits.len() as i32) > e {
            e = digits.len() as i32;
        }
        // %e is used if the exponent from the conversion is less than -4 or greater than or
        // equal to the precision. if precision was the shortest possible, use precision 6 for
        // this decision; fmt's %v overrides the upper threshold to 21.
        let _ = e;
        21
    };
    if exp < -4 || exp >= eprec {
        // d.ddde±dd
        out.push_str(&digits[..1]);
        if digits.len() > 1 {
            out.push('.');
            out.push_str(&digits[1..]);
        }
        out.push('e');
        out.push(if exp < 0 { '-' } else { '+' });
        let a = exp.abs();
        if a < 10 {
            out.push('0');
        }
        out.push_str(&a.to_string());
        return out;
    }
    // %f with just enough digits
    if exp >= 0 {
        let ip = (exp + 1) as usize;
        if digits.len() <= ip {
            out.push_str(&digits);
            for _ in 0..(ip - digits.len()) {
                out.push('0');
            }
        } else {
            out.push_str(&digits[..ip]);
            out.push('.');
            out.push_str(&digits[ip..]);
        }
    } else {
        out.push_str("0.");
        for _ in 0..(-exp - 1) {
            out.push('0');
        }
        out.push_str(&digits);
    }
    out
}

pub fn format_f64_v(f: f64) -> String {
    if f.is_nan() {
        return "NaN".into();
    }
    if f.is_infinite() {
        return if f > 0.0 { "+Inf".into() } else { "-Inf".into() };
    }
    if f == 0.0 {
        return if f.is_sign_negative() { "-0".into() } else { "0".into() };
    }
    let (d, e) = shortest_digits_f64(f);
    fmt_g(f < 0.0, d, e)
}

pub fn format_f32_v(f: f32) -> String {
    if f.is_nan() {
        return "NaN".into();
    }
    if f.is_infinite() {
        return if f > 0.0 { "+Inf".into() } else { "-Inf".into() };
    }
    if f == 0.0 {
        return if f.is_sign_negative() { "-0".into() } else { "0".into() };
    }
    let (d, e) = shortest_digits_f32(f);
    fmt_g(f < 0.0, d, e)
}

/// characters Go's unicode.IsPrint accepts, for the declared alphabet; conservative elsewhere
pub fn is_print(c: char) -> bool {
    let u = c as u32;
    if u < 0x20 || u == 0x7f {
        return false;
    }
    if u < 0x7f {
        return true;
    }
    if (0x80..0xa0).contains(&u) {
        return false; // C1 controls
    }
    if u == 0xa0 || u == 0xad {
        return false; // NBSP is Zs (not graphic for IsPrint), soft hyphen is Cf
    }
    match u {
        0x1680 | 0x2000..=0x200f | 0x2028..=0x202f | 0x205f..=0x2064 | 0x2066..=0x206f | 0x3000 | 0xfeff | 0xfff9..=0xfffb => false,
        0xd800..=0xdfff => false,
        0xe000..=0xf8ff => false,           // private use (Co)
        0xe0000..=0xe0fff => false,         // tags (Cf) and unassigned
        0xf0000..=0x10ffff => false,        // private use planes
        0xfffe | 0xffff => false,
        _ => !c.is_control(),
    }
}

pub fn quote(s: &[u8]) -> Vec<u8> {
    let mut out: Vec<u8> = vec![b'"'];
    let mut i = 0;
    while i < s.len() {
        // decode one rune
        let (r, w) = match std::str::from_utf8(&s[i..]) {
            Ok(t) => {
                let c = t.chars().next().unwrap();
                (Some(c), c.len_utf8())
            }
            Err(e) => {
                if e.valid_up_to() > 0 {
                    let t = std::str::from_utf8(&s[i..i + e.valid_up_to()]).unwrap();
                    let c = t.chars().next().unwrap();
                    (Some(c), c.len_utf8())
                } else {
                    (None, 1)
                }
            }
        };
        match r {
            None => {
                out.extend_from_slice(format!("\\x{:02x}", s[i]).as_bytes());
            }
            Some(c) => {
                if c == '"' || c == '\\' {
                    out.push(b'\\');
                    out.push(c as u8);
                } else if is_print(c) {
                    let mut buf = [0u8; 4];
                    out.extend_from_slice(c.encode_utf8(&mut buf).as_bytes());
                } else {
                    match c {
                        '\u{7}' => out.extend_from_slice(b"\\a"),
                        '\u{8}' => out.extend_from_slice(b"\\b"),
                        '\u{c}' => out.extend_from_slice(b"\\f"),
                        '\n' => out.extend_from_slice(b"\\n"),
                        '\r' => out.extend_from_slice(b"\\r"),
                        '\t' => out.extend_from_slice(b"\\t"),
                        '\u{b}' => out.extend_from_slice(b"\\v"),
                        c if (c as u32) < 0x20 || c as u32 == 0x7f => {
                            out.extend_from_slice(format!("\\x{:02x}", c as u32).as_bytes())
                        }
                        c if (c as u32) < 0x10000 => out.extend_from_slice(format!("\\u{:04x}", c as u32).as_bytes()),
                        c => out.extend_from_slice(format!("\\U{:08x}", c as u32).as_bytes()),
                    }
                }
            }
        }
        i += w;
    }
    out.push(b'"');
    out
}

fn type_name(v: &V) -> String {
    match v {
        V::Unit => "struct {}".into(),
        V::Bool(_) => "bool".into(),
        V::Int(k, _) => k.name().into(),
        V::F32(_) => "float32".into(),
        V::F64(_) => "float64".into(),
        V::Str(_) => "string".into(),
        V::Struct(n, _) => format!("main.{}", n),
        _ => "?".into(),
    }
}

/// %v
pub fn format_v(v: &V) -> String {
    match v {
        V::Unit => "{}".into(),
        V::Bool(b) => b.to_string(),
        V::Int(_, x) => x.to_string(),
        V::F32(f) => format_f32_v(*f),
        V::F64(f) => format_f64_v(*f),
        V::Str(s) => String::from_utf8_lossy(s).into_owned(),
        V::Struct(_, fs) => format!("{{{}}}", fs.iter().map(format_v).collect::<Vec<_>>().join(" ")),
        V::Array(xs) => format!("[{}]", xs.iter().map(format_v).collect::<Vec<_>>().join(" ")),
        V::Iface(Some(b)) => format_v(&b.1),
        V::Iface(None) => "<nil>".into(),
        _ => "?".into(),
    }
}

fn unbox(v: &V) -> &V {
    match v {
        V::Iface(Some(b)) => unbox(&b.1),
        o => o,
    }
}

pub fn sprintf(fmt: &[u8], args: &[V]) -> Result<Vec<u8>, String> {
    let mut out = Vec::new();
    let mut ai = 0;
    let mut i = 0;
    while i < fmt.len() {
        let c = fmt[i];
        if c != b'%' {
            out.push(c);
            i += 1;
            continue;
        }
        i += 1;
        if i >= fmt.len() {
            out.extend_from_slice(b"%!(NOVERB)");
            break;
        }
        let verb = fmt[i];
        i += 1;
        if verb == b'%' {
            out.push(b'%');
            continue;
        }
        if ai >= args.len() {
            out.extend_from_slice(format!("%!{}(MISSING)", verb as char).as_bytes());
            continue;
        }
        let a = unbox(&args[ai]);
        ai += 1;
        match verb {
            b'd' => match a {
                V::Int(_, x) => out.extend_from_slice(x.to_string().as_bytes()),
                other => {
                    out.extend_from_slice(format!("%!d({}={})", type_name(other), format_v(other)).as_bytes());
                }
            },
            b'v' => out.extend_from_slice(format_v(a).as_bytes()),
            b's' => match a {
                V::Str(s) => out.extend_from_slice(s),
                other => out.extend_from_slice(format!("%!s({}={})", type_name(other), format_v(other)).as_bytes()),
            },
            b'q' => match a {
                V::Str(s) => out.extend_from_slice(&quote(s)),
                other => return Err(format!("%q on {:?}", other)),
            },
            other => return Err(format!("verb %{} not modelled", other as char)),
        }
    }
    if ai < args.len() {
        return Err("extra arguments to Sprintf not modelled".into());
    }
    Ok(out)
}

/// fmt.Print / fmt.Println
pub fn sprint(args: &[V], ln: bool) -> Vec<u8> {
    let mut out = Vec::new();
    for (i, a) in args.iter().enumerate() {
        let a = unbox(a);
        if i > 0 {
            // Println always adds spaces; Print adds them between operands when neither is a string
            let prev_is_str = matches!(unbox(&args[i - 1]), V::Str(_));
            let cur_is_str = matches!(a, V::Str(_));
            if ln || (!prev_is_str && !cur_is_str) {
                out.push(b' ');
            }
        }
        match a {
            V::Str(s) => out.extend_from_slice(s),
            o => out.extend_from_slice(format_v(o).as_bytes()),
        }
    }
    if ln {
        out.push(b'\n');
    }
    out
}

/// the builtin println/print (runtime formatting, goes to stderr)
pub fn format_println_builtin(v: &V) -> String {
    match v {
        V::Str(s) => String::from_utf8_lossy(s).into_owned(),
        V::Int(_, x) => x.to_string(),
        V::Bool(b) => b.to_string(),
        V::F64(f) => format!("{:+e}", f),
        V::F32(f) => format!("{:+e}", f),
        o => format_v(o),
    }
}
