//! Interpreter for checked programs of the Go subset.

use super::check::{Program, TypeDef};
use super::fmt as gofmt;
use super::syntax::*;
use std::collections::HashMap;
use std::sync::{Arc, Mutex};

#[derive(Debug, Clone)]
pub enum V {
    Unit,
    Bool(bool),
    Int(IntKind, i128),
    F32(f32),
    F64(f64),
    Str(Arc<Vec<u8>>),
    Struct(Arc<str>, Vec<V>),
    Array(Vec<V>),
    Slice(Option<SliceV>),
    Ptr(Option<Arc<Mutex<V>>>),
    Func(Option<Arc<str>>),
    /// a method value `x.m`: the method's item and the receiver it was taken from
    Bound(usize, Box<V>),
    Iface(Option<Box<(Ty, V)>>),
    Opaque,
}

#[derive(Debug, Clone)]
pub struct SliceV {
    pub backing: Arc<Mutex<Vec<V>>>,
    pub off: usize,
    pub len: usize,
    pub cap: usize,
}

#[derive(Debug, Clone, PartialEq, Eq, Hash)]
pub enum PanicKind {
    DivZero,
    Index,
    NilDeref,
    Assert,
    Uncomparable,
    Explicit(String),
}

#[derive(Debug, Clone, PartialEq, Eq, Hash)]
pub enum End {
    Ok,
    Panic(PanicKind),
    /// machinery: fuel exhausted (explicit horizon)
    Fuel,
    /// machinery: construct outside the model reached at run time
    Unsupported(String),
    /// all goroutines asleep (only with a scheduler)
    Deadlock,
}

#[derive(Debug, Clone, PartialEq, Eq, Hash)]
pub struct RunResult {
    pub stdout: Vec<u8>,
    pub stderr: Vec<u8>,
    pub end: End,
    pub steps: u64,
}

enum Flow {
    Normal,
    Break,
    Return(Option<V>),
}

pub enum Stop {
    Panic(PanicKind),
    Fuel,
    Unsupported(String),
    /// the scheduler decided this goroutine must stop (main exited)
    Killed,
}

type R<T> = Result<T, Stop>;

/// Events at which the scheduler is consulted.
#[derive(Debug, Clone, Copy, PartialEq, Eq)]
pub enum YieldKind {
    SharedOp, // pointer read/write, print
    BackEdge, // loop back-edge
    Spawn,
}

pub trait Host: Send {
    /// called at yield points; may block the calling goroutine (threads scheduler) or run
    /// pending goroutines inline (default sequential host).
    fn yield_point(&mut self, it: &mut Interp, kind: YieldKind) -> R<()>;
    /// `callee` is a function value: `V::Func(Some(name))` or a method value `V::Bound(item, receiver)`
    fn spawn(&mut self, it: &mut Interp, callee: V, args: Vec<V>) -> R<()>;
}

pub struct Interp {
    pub prog: Arc<Program>,
    pub out: Arc<Mutex<(Vec<u8>, Vec<u8>)>>,
    pub fuel: u64,
    pub steps: u64,
    frames: Vec<Frame>,
    pub host: Option<Box<dyn Host>>,
}

struct Frame {
    vars: Vec<(Arc<str>, V)>,
    marks: Vec<usize>,
}

impl Frame {
    fn new() -> Frame {
        Frame {
            vars: Vec::new(),
            marks: Vec::new(),
        }
    }
    fn get(&self, n: &str) -> Option<&V> {
        self.vars.iter().rev().find(|(k, _)| &**k == n).map(|(_, v)| v)
    }
    fn get_mut(&mut self, n: &str) -> Option<&mut V> {
        self.vars.iter_mut().rev().find(|(k, _)| &**k == n).map(|(_, v)| v)
    }
    fn push_scope(&mut self) {
        self.marks.push(self.vars.len());
    }
    fn pop_scope(&mut self) {
        let m = self.marks.pop().unwrap();
        self.vars.truncate(m);
    }
}

fn unsup<T>(s: impl Into<String>) -> R<T> {
    Err(Stop::Unsupported(s.into()))
}

pub fn zero(prog: &Program, t: &Ty) -> V {
    match t {
        Ty::EmptyStruct => V::Unit,
        Ty::Bool => V::Bool(false),
        Ty::Int(k) => V::Int(*k, 0),
        Ty::F32 => V::F32(0.0),
        Ty::F64 => V::F64(0.0),
        Ty::Str => V::Str(Arc::new(Vec::new())),
        Ty::Named(n) => match prog.types.get(n) {
            Some(TypeDef::Struct(fs)) => V::Struct(Arc::from(n.as_str()), fs.iter().map(|(_, ft)| zero(prog, ft)).collect()),
            Some(TypeDef::Interface(_)) => V::Iface(None),
            None => {
                if n == "any" {
                    V::Iface(None)
                } else {
                    V::Opaque
                }
            }
        },
        Ty::Ptr(_) => V::Ptr(None),
        Ty::Array(n, e) => V::Array((0..*n).map(|_| zero(prog, e)).collect()),
        Ty::Slice(_) => V::Slice(None),
        Ty::Func(..) => V::Func(None),
    }
}

/// Go's comparability of a type (spec: Comparison operators): slices and functions are not
/// comparable, a struct / array is comparable iff all its fields / its element type are.
fn ty_comparable(t: &Ty, types: &HashMap<String, TypeDef>, seen: &mut Vec<String>) -> bool {
    match t {
        Ty::Slice(_) | Ty::Func(..) => false,
        Ty::Array(_, e) => ty_comparable(e, types, seen),
        Ty::Named(n) => match types.get(n) {
            Some(TypeDef::Struct(fs)) => {
                if seen.contains(n) {
                    return true;
                }
                seen.push(n.clone());
                fs.iter().all(|(_, ft)| ty_comparable(ft, types, seen))
            }
            _ => true,
        },
        _ => true,
    }
}

/// Go's `==` on two values of identical static type (after interface boxing).
fn go_eq(a: &V, b: &V, types: &HashMap<String, TypeDef>) -> Result<bool, PanicKind> {
    Ok(match (a, b) {
        (V::Unit, V::Unit) => true,
        (V::Bool(x), V::Bool(y)) => x == y,
        (V::Int(_, x), V::Int(_, y)) => x == y,
        (V::F32(x), V::F32(y)) => x == y,
        (V::F64(x), V::F64(y)) => x == y,
        (V::Str(x), V::Str(y)) => x == y,
        (V::Struct(n1, f1), V::Struct(n2, f2)) => {
            if n1 != n2 {
                return Ok(false);
            }
            for (x, y) in f1.iter().zip(f2.iter()) {
                if !go_eq(x, y, types)? {
                    return Ok(false);
                }
            }
            true
        }
        (V::Array(x), V::Array(y)) => {
            for (p, q) in x.iter().zip(y.iter()) {
                if !go_eq(p, q, types)? {
                    return Ok(false);
                }
            }
            true
        }
        (V::Ptr(x), V::Ptr(y)) => match (x, y) {
            (None, None) => true,
            (Some(p), Some(q)) => Arc::ptr_eq(p, q),
            _ => false,
        },
        (V::Slice(x), V::Slice(None)) | (V::Slice(None), V::Slice(x)) => x.is_none(),
        (V::Func(x), V::Func(None)) | (V::Func(None), V::Func(x)) => x.is_none(),
        (V::Iface(x), V::Iface(y)) => match (x, y) {
            (None, None) => true,
            (Some(p), Some(q)) => {
                if p.0 != q.0 {
                    false
                } else {
                    // identical dynamic types that are not comparable: run-time panic, whatever the values
                    if !ty_comparable(&p.0, types, &mut Vec::new()) {
                        return Err(PanicKind::Uncomparable);
                    }
                    go_eq(&p.1, &q.1, types)?
                }
            }
            _ => false,
        },
        (V::Slice(_), V::Slice(_)) | (V::Func(_), V::Func(_)) => return Err(PanicKind::Uncomparable),
        _ => false,
    })
}

impl Interp {
    pub fn new(prog: Arc<Program>, fuel: u64) -> Interp {
        Interp {
            prog,
            out: Arc::new(Mutex::new((Vec::new(), Vec::new()))),
            fuel,
            steps: 0,
            frames: Vec::new(),
            host: None,
        }
    }

    fn tick(&mut self) -> R<()> {
        self.steps += 1;
        if self.steps > self.fuel {
            return Err(Stop::Fuel);
        }
        Ok(())
    }

    fn yield_point(&mut self, kind: YieldKind) -> R<()> {
        if let Some(mut h) = self.host.take() {
            let r = h.yield_point(self, kind);
            self.host = Some(h);
            r
        } else {
            Ok(())
        }
    }

    fn frame(&mut self) -> &mut Frame {
        self.frames.last_mut().unwrap()
    }

    /// call a function value (named function or method value)
    pub fn call_value(&mut self, callee: V, args: Vec<V>) -> R<Option<V>> {
        match callee {
            V::Func(Some(name)) => self.call_func(&name, args),
            V::Bound(item, recv) => self.call_item(item, Some(*recv), args),
            V::Func(None) => Err(Stop::Panic(PanicKind::NilDeref)),
            _ => unsup("call of a value that is not a function"),
        }
    }

    pub fn call_func(&mut self, name: &str, args: Vec<V>) -> R<Option<V>> {
        let prog = self.prog.clone();
        let Some(&idx) = prog.funcs.get(name) else {
            return unsup(format!("call of unknown function {}", name));
        };
        self.call_item(idx, None, args)
    }

    /// a function, or a method with its receiver
    pub fn call_item(&mut self, idx: usize, recv: Option<V>, args: Vec<V>) -> R<Option<V>> {
        self.tick()?;
        if self.frames.len() > 2000 {
            return unsup("go call depth > 2000");
        }
        let prog = self.prog.clone();
        let Item::Func(f) = &prog.file.items[idx] else { unreachable!() };
        let mut fr = Frame::new();
        if let (Some(p), Some(v)) = (&f.recv, recv) {
            fr.vars.push((Arc::from(p.name.as_str()), v));
        }
        for (p, a) in f.params.iter().zip(args.into_iter()) {
            fr.vars.push((Arc::from(p.name.as_str()), a));
        }
        self.frames.push(fr);
        let r = self.block_noscope(&f.body);
        self.frames.pop();
        match r? {
            Flow::Return(v) => Ok(v),
            _ => Ok(None),
        }
    }

    fn block_noscope(&mut self, b: &Block) -> R<Flow> {
        for s in &b.stmts {
            match self.stmt(s)? {
                Flow::Normal => {}
                other => return Ok(other),
            }
        }
        Ok(Flow::Normal)
    }

    fn block(&mut self, b: &Block) -> R<Flow> {
        self.frame().push_scope();
        let r = self.block_noscope(b);
        self.frame().pop_scope();
        r
    }

    fn stmt(&mut self, s: &Stmt) -> R<Flow> {
        self.tick()?;
        match &s.kind {
            StmtKind::Expr(e) => {
                self.eval_opt(e)?;
                Ok(Flow::Normal)
            }
            StmtKind::Go(e) => {
                let ExprKind::Call(f, args) = &e.kind else {
                    return unsup("go without call");
                };
                let fv = self.eval(f)?;
                let mut avs = Vec::new();
                for a in args {
                    avs.push(self.eval(a)?);
                }
                match &fv {
                    V::Func(Some(_)) | V::Bound(..) => {}
                    // `go` of a nil function value: Go panics in the spawner
                    V::Func(None) => return Err(Stop::Panic(PanicKind::NilDeref)),
                    _ => return unsup("go of a value that is not a function"),
                }
                if let Some(mut h) = self.host.take() {
                    let r = h.spawn(self, fv, avs);
                    self.host = Some(h);
                    r?;
                } else {
                    return unsup("go statement without a host scheduler");
                }
                Ok(Flow::Normal)
            }
            StmtKind::VarDecl(name, _, init) => {
                let v = match init {
                    Some(e) => self.eval(e)?,
                    None => {
                        // type was resolved by the checker; recompute zero value from annotation
                        let t = self.decl_type(s)?;
                        zero(&self.prog, &t)
                    }
                };
                let n: Arc<str> = Arc::from(name.as_str());
                self.frame().vars.push((n, v));
                Ok(Flow::Normal)
            }
            StmtKind::Assign(lhs, rhs) => {
                if matches!(&lhs.kind, ExprKind::Ident(n) if n == "_") {
                    self.eval(rhs)?;
                    return Ok(Flow::Normal);
                }
                // Go evaluates index/pointer operands of the lhs first, then rhs; our lhs operands are
                // variables or pure selectors, so order is unobservable.
                let v = self.eval(rhs)?;
                self.assign(lhs, v)?;
                Ok(Flow::Normal)
            }
            StmtKind::Return(e) => match e {
                Some(e) => Ok(Flow::Return(Some(self.eval(e)?))),
                None => Ok(Flow::Return(None)),
            },
            StmtKind::If(c, t, e) => {
                let V::Bool(b) = self.eval(c)? else {
                    return unsup("non-bool condition");
                };
                if b {
                    self.block(t)
                } else if let Some(e) = e {
                    self.block(e)
                } else {
                    Ok(Flow::Normal)
                }
            }
            StmtKind::For(body) => loop {
                match self.block(body)? {
                    Flow::Break => return Ok(Flow::Normal),
                    Flow::Return(v) => return Ok(Flow::Return(v)),
                    Flow::Normal => {}
                }
                self.yield_point(YieldKind::BackEdge)?;
            },
            StmtKind::Break => Ok(Flow::Break),
            StmtKind::Switch(tag, cases, default) => {
                let tv = self.eval(tag)?;
                for (c, body) in cases {
                    let cv = self.eval(c)?;
                    let eq = go_eq(&tv, &cv, &self.prog.types).map_err(Stop::Panic)?;
                    if eq {
                        return Ok(match self.block(body)? {
                            Flow::Break => Flow::Normal,
                            o => o,
                        });
                    }
                }
                if let Some(d) = default {
                    return Ok(match self.block(d)? {
                        Flow::Break => Flow::Normal,
                        o => o,
                    });
                }
                Ok(Flow::Normal)
            }
            StmtKind::TypeSwitch(bind, e, cases, default) => {
                let v = self.eval(e)?;
                let V::Iface(inner) = &v else {
                    return unsup("type switch on non-interface value");
                };
                let prog = self.prog.clone();
                if let Some(bx) = inner {
                    for (tyx, body) in cases {
                        let ct = resolve_runtime_ty(&prog, tyx);
                        if ct.as_ref() == Some(&bx.0) {
                            self.frame().push_scope();
                            if let Some(b) = bind {
                                let n: Arc<str> = Arc::from(b.as_str());
                                let val = bx.1.clone();
                                self.frame().vars.push((n, val));
                            }
                            let r = self.block(body);
                            self.frame().pop_scope();
                            return Ok(match r? {
                                Flow::Break => Flow::Normal,
                                o => o,
                            });
                        }
                    }
                }
                if let Some(d) = default {
                    self.frame().push_scope();
                    if let Some(b) = bind {
                        let n: Arc<str> = Arc::from(b.as_str());
                        self.frame().vars.push((n, v.clone()));
                    }
                    let r = self.block(d);
                    self.frame().pop_scope();
                    return Ok(match r? {
                        Flow::Break => Flow::Normal,
                        o => o,
                    });
                }
                Ok(Flow::Normal)
            }
            StmtKind::Block(b) => self.block(b),
        }
    }

    fn decl_type(&self, s: &Stmt) -> R<Ty> {
        if let StmtKind::VarDecl(_, tyx, _) = &s.kind {
            match resolve_runtime_ty(&self.prog, tyx) {
                Some(t) => Ok(t),
                None => unsup("cannot resolve declared type at run time (shadowed type name)"),
            }
        } else {
            unreachable!()
        }
    }

    fn with_lvalue<T>(&mut self, e: &Expr, f: &mut dyn FnMut(&mut V) -> R<T>) -> R<T> {
        match &e.kind {
            ExprKind::Local(n) => {
                let Some(v) = self.frame().get_mut(n) else {
                    return unsup(format!("unbound local {}", n));
                };
                f(v)
            }
            ExprKind::Selector(obj, field) => {
                let through_ptr = matches!(obj.ty, Some(Ty::Ptr(_)));
                let prog = self.prog.clone();
                if through_ptr {
                    let pv = self.eval(obj)?;
                    let V::Ptr(p) = pv else { return unsup("selector through non-pointer") };
                    let Some(p) = p else {
                        return Err(Stop::Panic(PanicKind::NilDeref));
                    };
                    self.yield_point(YieldKind::SharedOp)?;
                    let mut g = p.lock().unwrap();
                    let idx = field_index(&prog, &g, field)?;
                    let V::Struct(_, fs) = &mut *g else { return unsup("field of non-struct") };
                    f(&mut fs[idx])
                } else {
                    self.with_lvalue(obj, &mut |v: &mut V| {
                        let idx = field_index(&prog, v, field)?;
                        let V::Struct(_, fs) = v else { return unsup("field of non-struct") };
                        f(&mut fs[idx])
                    })
                }
            }
            ExprKind::Index(arr, idx) => {
                let iv = self.eval(idx)?;
                let V::Int(_, i) = iv else { return unsup("non-int index") };
                match &arr.ty {
                    Some(Ty::Slice(_)) => {
                        let sv = self.eval(arr)?;
                        let V::Slice(s) = sv else { return unsup("index of non-slice") };
                        let Some(s) = s else {
                            return Err(Stop::Panic(PanicKind::Index));
                        };
                        if i < 0 || i as usize >= s.len {
                            return Err(Stop::Panic(PanicKind::Index));
                        }
                        let mut g = s.backing.lock().unwrap();
                        f(&mut g[s.off + i as usize])
                    }
                    _ => self.with_lvalue(arr, &mut |v: &mut V| {
                        let V::Array(items) = v else { return unsup("index of non-array") };
                        if i < 0 || i as usize >= items.len() {
                            return Err(Stop::Panic(PanicKind::Index));
                        }
                        f(&mut items[i as usize])
                    }),
                }
            }
            ExprKind::Unary(UnOp::Deref, p) => {
                let pv = self.eval(p)?;
                let V::Ptr(p) = pv else { return unsup("deref of non-pointer") };
                let Some(p) = p else {
                    return Err(Stop::Panic(PanicKind::NilDeref));
                };
                self.yield_point(YieldKind::SharedOp)?;
                let mut g = p.lock().unwrap();
                f(&mut g)
            }
            _ => unsup("unsupported lvalue"),
        }
    }

    fn assign(&mut self, lhs: &Expr, v: V) -> R<()> {
        let mut slot = Some(v);
        self.with_lvalue(lhs, &mut |dst: &mut V| {
            *dst = slot.take().unwrap();
            Ok(())
        })
    }

    fn eval(&mut self, e: &Expr) -> R<V> {
        match self.eval_opt(e)? {
            Some(v) => Ok(v),
            None => unsup("void value used"),
        }
    }

    fn eval_opt(&mut self, e: &Expr) -> R<Option<V>> {
        Ok(Some(match &e.kind {
            ExprKind::Nil => match &e.ty {
                Some(t) => zero(&self.prog, t),
                None => return unsup("untyped nil at run time"),
            },
            ExprKind::UnitLit => V::Unit,
            ExprKind::ConstInt(v, t) => match t {
                Ty::Int(k) => V::Int(*k, *v),
                _ => return unsup("const int of non-int type"),
            },
            ExprKind::ConstFloat(v, t) => match t {
                Ty::F32 => V::F32(*v as f32),
                _ => V::F64(*v),
            },
            ExprKind::ConstStr(s) => V::Str(Arc::new(s.clone())),
            ExprKind::ConstBool(b) => V::Bool(*b),
            ExprKind::Local(n) => match self.frame().get(n) {
                Some(v) => v.clone(),
                None => return unsup(format!("unbound local {}", n)),
            },
            ExprKind::Global(n) => V::Func(Some(Arc::from(n.as_str()))),
            ExprKind::ToIface(inner, t) => {
                let v = self.eval(inner)?;
                V::Iface(Some(Box::new((t.clone(), v))))
            }
            ExprKind::Unary(op, inner) => match op {
                UnOp::Neg => match self.eval(inner)? {
                    V::Int(k, v) => V::Int(k, k.wrap(-v)),
                    V::F32(f) => V::F32(-f),
                    V::F64(f) => V::F64(-f),
                    _ => return unsup("neg of non-number"),
                },
                UnOp::Not => match self.eval(inner)? {
                    V::Bool(b) => V::Bool(!b),
                    _ => return unsup("not of non-bool"),
                },
                UnOp::Addr => {
                    if matches!(inner.kind, ExprKind::Composite(..)) {
                        let v = self.eval(inner)?;
                        V::Ptr(Some(Arc::new(Mutex::new(v))))
                    } else {
                        return unsup("address of variable");
                    }
                }
                UnOp::Deref => {
                    let V::Ptr(p) = self.eval(inner)? else { return unsup("deref of non-pointer") };
                    let Some(p) = p else {
                        return Err(Stop::Panic(PanicKind::NilDeref));
                    };
                    self.yield_point(YieldKind::SharedOp)?;
                    let g = p.lock().unwrap();
                    g.clone()
                }
            },
            ExprKind::Binary(op, l, r) => {
                let op = *op;
                if op == BinOp::And || op == BinOp::Or {
                    let V::Bool(a) = self.eval(l)? else { return unsup("&& on non-bool") };
                    if (op == BinOp::And && !a) || (op == BinOp::Or && a) {
                        return Ok(Some(V::Bool(a)));
                    }
                    let V::Bool(b) = self.eval(r)? else { return unsup("&& on non-bool") };
                    return Ok(Some(V::Bool(b)));
                }
                let a = self.eval(l)?;
                let b = self.eval(r)?;
                binop(op, a, b, &self.prog.types)?
            }
            ExprKind::Selector(obj, field) => {
                let ov = self.eval(obj)?;
                let prog = self.prog.clone();
                match ov {
                    V::Ptr(p) => {
                        let Some(p) = p else {
                            return Err(Stop::Panic(PanicKind::NilDeref));
                        };
                        self.yield_point(YieldKind::SharedOp)?;
                        let g = p.lock().unwrap();
                        let idx = field_index(&prog, &g, field)?;
                        let V::Struct(_, fs) = &*g else { return unsup("field of non-struct") };
                        fs[idx].clone()
                    }
                    V::Struct(ref n, _) if prog.methods.contains_key(&(n.to_string(), field.clone())) => {
                        let item = prog.methods[&(n.to_string(), field.clone())];
                        V::Bound(item, Box::new(ov.clone()))
                    }
                    V::Struct(..) => {
                        let idx = field_index(&prog, &ov, field)?;
                        let V::Struct(_, mut fs) = ov else { unreachable!() };
                        fs.swap_remove(idx)
                    }
                    V::Opaque => V::Opaque,
                    _ => return unsup("selector on unsupported value (method value?)"),
                }
            }
            ExprKind::SliceExpr(arr, lo, hi, max) => {
                let av = self.eval(arr)?;
                let mut bound = |me: &mut Self, b: &Option<Box<Expr>>| -> R<Option<i128>> {
                    match b {
                        None => Ok(None),
                        Some(x) => match me.eval(x)? {
                            V::Int(_, i) => Ok(Some(i)),
                            _ => unsup("non-int slice bound"),
                        },
                    }
                };
                let (l, h, m) = (bound(self, lo)?, bound(self, hi)?, bound(self, max)?);
                let V::Slice(s) = av else { return unsup("slice expression on a non-slice") };
                let (len, cap) = s.as_ref().map(|s| (s.len as i128, s.cap as i128)).unwrap_or((0, 0));
                let l = l.unwrap_or(0);
                let h = h.unwrap_or(len);
                let m = m.unwrap_or(cap);
                if !(0 <= l && l <= h && h <= m && m <= cap) {
                    return Err(Stop::Panic(PanicKind::Index));
                }
                match s {
                    None => V::Slice(None),
                    Some(s) => V::Slice(Some(SliceV { backing: s.backing.clone(), off: s.off + l as usize, len: (h - l) as usize, cap: (m - l) as usize })),
                }
            }
            ExprKind::Index(arr, idx) => {
                let av = self.eval(arr)?;
                let V::Int(_, i) = self.eval(idx)? else { return unsup("non-int index") };
                match av {
                    V::Array(items) => {
                        if i < 0 || i as usize >= items.len() {
                            return Err(Stop::Panic(PanicKind::Index));
                        }
                        items[i as usize].clone()
                    }
                    V::Slice(s) => {
                        let Some(s) = s else {
                            return Err(Stop::Panic(PanicKind::Index));
                        };
                        if i < 0 || i as usize >= s.len {
                            return Err(Stop::Panic(PanicKind::Index));
                        }
                        let g = s.backing.lock().unwrap();
                        g[s.off + i as usize].clone()
                    }
                    V::Str(s) => {
                        if i < 0 || i as usize >= s.len() {
                            return Err(Stop::Panic(PanicKind::Index));
                        }
                        V::Int(IntKind::U8, s[i as usize] as i128)
                    }
                    _ => return unsup("index of unsupported value"),
                }
            }
            ExprKind::Assert(inner, _) => {
                let v = self.eval(inner)?;
                let Some(target) = &e.ty else { return unsup("unresolved assertion type") };
                let V::Iface(bx) = v else { return unsup("assertion on non-interface") };
                // assertion to an interface type: the dynamic type must implement it, the value stays boxed
                let target_iface = match target {
                    Ty::Named(n) if n == "any" => Some(Vec::new()),
                    Ty::Named(n) => match self.prog.types.get(n) {
                        Some(TypeDef::Interface(ms)) => Some(ms.iter().map(|m| m.0.clone()).collect::<Vec<_>>()),
                        _ => None,
                    },
                    _ => None,
                };
                match (bx, target_iface) {
                    (Some(b), Some(methods)) => {
                        let dyn_name = match &b.0 {
                            Ty::Named(n) => Some(n.clone()),
                            Ty::Ptr(inner) => match &**inner {
                                Ty::Named(n) => Some(n.clone()),
                                _ => None,
                            },
                            _ => None,
                        };
                        let ok = methods.iter().all(|m| dyn_name.as_ref().map(|d| self.prog.methods.contains_key(&(d.clone(), m.clone()))).unwrap_or(false));
                        if ok {
                            V::Iface(Some(b))
                        } else {
                            return Err(Stop::Panic(PanicKind::Assert));
                        }
                    }
                    (Some(b), None) if &b.0 == target => b.1,
                    _ => return Err(Stop::Panic(PanicKind::Assert)),
                }
            }
            ExprKind::Composite(_, elems) => {
                let Some(t) = &e.ty else { return unsup("untyped composite") };
                let t = t.clone();
                let prog = self.prog.clone();
                match &t {
                    Ty::Named(n) => {
                        let Some(TypeDef::Struct(fs)) = prog.types.get(n) else { return unsup("composite of non-struct") };
                        let mut vals: Vec<V> = fs.iter().map(|(_, ft)| zero(&prog, ft)).collect();
                        for (i, (k, ve)) in elems.iter().enumerate() {
                            let v = self.eval(ve)?;
                            let idx = match k {
                                Some(k) => fs.iter().position(|(f, _)| f == k).unwrap(),
                                None => i,
                            };
                            vals[idx] = v;
                        }
                        V::Struct(Arc::from(n.as_str()), vals)
                    }
                    Ty::Array(n, et) => {
                        let mut vals: Vec<V> = Vec::new();
                        for (_, ve) in elems {
                            vals.push(self.eval(ve)?);
                        }
                        while (vals.len() as u64) < *n {
                            vals.push(zero(&prog, et));
                        }
                        V::Array(vals)
                    }
                    Ty::Slice(_) => {
                        let mut vals: Vec<V> = Vec::new();
                        for (_, ve) in elems {
                            vals.push(self.eval(ve)?);
                        }
                        let n = vals.len();
                        V::Slice(Some(SliceV {
                            backing: Arc::new(Mutex::new(vals)),
                            off: 0,
                            len: n,
                            cap: n,
                        }))
                    }
                    _ => return unsup("composite literal type"),
                }
            }
            ExprKind::Call(f, args) => return self.call(e, f, args),
            other => return unsup(format!("expression form not executable: {:?}", std::mem::discriminant(other))),
        }))
    }

    fn call(&mut self, _e: &Expr, f: &Expr, args: &[Expr]) -> R<Option<V>> {
        match &f.kind {
            ExprKind::Builtin(b) => {
                let b = b.as_str();
                match b {
                    "convert" => {
                        let v = self.eval(&args[0])?;
                        let Some(t) = &f.ty else { return unsup("conversion without type") };
                        return Ok(Some(convert(v, t)?));
                    }
                    "len" | "cap" => {
                        let v = self.eval(&args[0])?;
                        let n = match v {
                            V::Str(s) => s.len(),
                            V::Array(a) => a.len(),
                            V::Slice(None) => 0,
                            V::Slice(Some(s)) => {
                                if b == "len" {
                                    s.len
                                } else {
                                    s.cap
                                }
                            }
                            _ => return unsup("len of unsupported value"),
                        };
                        return Ok(Some(V::Int(IntKind::Int, n as i128)));
                    }
                    "append" => {
                        let sv = self.eval(&args[0])?;
                        let mut extra = Vec::new();
                        for a in &args[1..] {
                            extra.push(self.eval(a)?);
                        }
                        let V::Slice(s) = sv else { return unsup("append to non-slice") };
                        return Ok(Some(V::Slice(append(s, extra))));
                    }
                    "panic" => {
                        let v = self.eval(&args[0])?;
                        let msg = match &v {
                            V::Iface(Some(b)) => match &b.1 {
                                V::Str(s) => String::from_utf8_lossy(s).into_owned(),
                                other => gofmt::format_v(other),
                            },
                            _ => "nil".to_string(),
                        };
                        return Err(Stop::Panic(PanicKind::Explicit(msg)));
                    }
                    "print" | "println" => {
                        let mut parts = Vec::new();
                        for a in args {
                            let v = self.eval(a)?;
                            parts.push(gofmt::format_println_builtin(&v));
                        }
                        self.yield_point(YieldKind::SharedOp)?;
                        let mut o = self.out.lock().unwrap();
                        if b == "println" {
                            o.1.extend_from_slice(parts.join(" ").as_bytes());
                            o.1.push(b'\n');
                        } else {
                            o.1.extend_from_slice(parts.join("").as_bytes());
                        }
                        return Ok(None);
                    }
                    _ => return unsup(format!("builtin {}", b)),
                }
            }
            ExprKind::Qualified(p, m) if p == "fmt" => {
                let mut avs = Vec::new();
                for a in args {
                    avs.push(self.eval(a)?);
                }
                match m.as_str() {
                    "Sprintf" => {
                        let V::Str(fmt) = &avs[0] else { return unsup("non-string format") };
                        let s = gofmt::sprintf(fmt, &avs[1..]).map_err(Stop::Unsupported)?;
                        Ok(Some(V::Str(Arc::new(s))))
                    }
                    "Print" | "Println" => {
                        let s = gofmt::sprint(&avs, m == "Println");
                        self.yield_point(YieldKind::SharedOp)?;
                        self.out.lock().unwrap().0.extend_from_slice(&s);
                        Ok(Some(V::Opaque))
                    }
                    _ => unsup(format!("fmt.{}", m)),
                }
            }
            ExprKind::Qualified(p, m) => unsup(format!("foreign call {}.{}", p, m)),
            _ => {
                let fv = self.eval(f)?;
                let mut avs = Vec::new();
                for a in args {
                    avs.push(self.eval(a)?);
                }
                match fv {
                    V::Func(Some(name)) => self.call_func(&name, avs),
                    V::Func(None) => Err(Stop::Panic(PanicKind::NilDeref)),
                    V::Bound(item, recv) => self.call_item(item, Some(*recv), avs),
                    _ => unsup("call of non-function value"),
                }
            }
        }
    }
}

fn field_index(prog: &Program, v: &V, field: &str) -> R<usize> {
    let V::Struct(n, _) = v else { return unsup(format!("field {} of non-struct value", field)) };
    let Some(TypeDef::Struct(fs)) = prog.types.get(&**n) else { return unsup("unknown struct type") };
    match fs.iter().position(|(f, _)| f == field) {
        Some(i) => Ok(i),
        None => unsup(format!("no field {} (method value?)", field)),
    }
}

/// resolve a written type at run time (package scope + universe only; local shadowing of type
/// names is impossible for emitted code that passed the checker with a local of that name used as
/// a type, because the checker would have rejected it).
pub fn resolve_runtime_ty(prog: &Program, t: &TyExpr) -> Option<Ty> {
    Some(match t {
        TyExpr::EmptyStruct => Ty::EmptyStruct,
        TyExpr::Name(n) => {
            if prog.types.contains_key(n) {
                Ty::Named(n.clone())
            } else {
                match n.as_str() {
                    "bool" => Ty::Bool,
                    "int8" => Ty::Int(IntKind::I8),
                    "int16" => Ty::Int(IntKind::I16),
                    "int32" | "rune" => Ty::Int(IntKind::I32),
                    "int64" => Ty::Int(IntKind::I64),
                    "uint8" | "byte" => Ty::Int(IntKind::U8),
                    "uint16" => Ty::Int(IntKind::U16),
                    "uint32" => Ty::Int(IntKind::U32),
                    "uint64" => Ty::Int(IntKind::U64),
                    "int" => Ty::Int(IntKind::Int),
                    "float32" => Ty::F32,
                    "float64" => Ty::F64,
                    "string" => Ty::Str,
                    "any" => Ty::Named("any".into()),
                    _ => {
                        // alias to foreign type
                        return Some(Ty::Named(format!("<alias>.{}", n)));
                    }
                }
            }
        }
        TyExpr::Qualified(p, m) => Ty::Named(format!("{}.{}", p, m)),
        TyExpr::Ptr(e) => Ty::Ptr(Box::new(resolve_runtime_ty(prog, e)?)),
        TyExpr::Slice(e) => Ty::Slice(Box::new(resolve_runtime_ty(prog, e)?)),
        TyExpr::Array(n, e) => Ty::Array(n.parse().ok()?, Box::new(resolve_runtime_ty(prog, e)?)),
        TyExpr::Func(ps, r) => {
            let mut v = Vec::new();
            for p in ps {
                v.push(resolve_runtime_ty(prog, p)?);
            }
            let r = match r {
                Some(r) => Some(Box::new(resolve_runtime_ty(prog, r)?)),
                None => None,
            };
            Ty::Func(v, r)
        }
    })
}

/// gc's slice growth (runtime.growslice, Go ≥ 1.18) for appending to a slice; size classes are
/// ignored except for the documented small-capacity rounding, so capacity-dependent aliasing is
/// reported under its own class by callers.
fn grow_cap(old_cap: usize, needed: usize) -> usize {
    let mut newcap = old_cap;
    let doublecap = newcap + newcap;
    if needed > doublecap {
        return needed;
    }
    const THRESHOLD: usize = 256;
    if old_cap < THRESHOLD {
        return doublecap.max(1);
    }
    while newcap < needed {
        newcap += (newcap + 3 * THRESHOLD) / 4;
    }
    newcap
}

fn append(s: Option<SliceV>, extra: Vec<V>) -> Option<SliceV> {
    if extra.is_empty() {
        return s;
    }
    match s {
        None => {
            let n = extra.len();
            let cap = grow_cap(0, n).max(n);
            Some(SliceV {
                backing: Arc::new(Mutex::new(extra)),
                off: 0,
                len: n,
                cap,
            })
        }
        Some(s) => {
            let needed = s.len + extra.len();
            if needed <= s.cap {
                let mut g = s.backing.lock().unwrap();
                for (i, v) in extra.into_iter().enumerate() {
                    let pos = s.off + s.len + i;
                    if pos < g.len() {
                        g[pos] = v;
                    } else {
                        g.push(v);
                    }
                }
                drop(g);
                Some(SliceV {
                    backing: s.backing.clone(),
                    off: s.off,
                    len: needed,
                    cap: s.cap,
                })
            } else {
                let g = s.backing.lock().unwrap();
                let mut nv: Vec<V> = g[s.off..s.off + s.len].to_vec();
                drop(g);
                nv.extend(extra);
                let cap = grow_cap(s.cap, needed);
                Some(SliceV {
                    backing: Arc::new(Mutex::new(nv)),
                    off: 0,
                    len: needed,
                    cap,
                })
            }
        }
    }
}

fn convert(v: V, t: &Ty) -> R<V> {
    Ok(match (v, t) {
        (V::Int(_, x), Ty::Int(k)) => V::Int(*k, k.wrap(x)),
        (V::Int(_, x), Ty::F32) => V::F32(x as f32),
        (V::Int(_, x), Ty::F64) => V::F64(x as f64),
        (V::F32(f), Ty::F32) => V::F32(f),
        (V::F32(f), Ty::F64) => V::F64(f as f64),
        (V::F64(f), Ty::F32) => V::F32(f as f32),
        (V::F64(f), Ty::F64) => V::F64(f),
        (V::F32(_), Ty::Int(_)) | (V::F64(_), Ty::Int(_)) => return unsup("float→int conversion"),
        (V::Int(_, x), Ty::Str) => {
            let c = char::from_u32(x as u32).unwrap_or('\u{fffd}');
            let c = if x < 0 || x > 0x10ffff { '\u{fffd}' } else { c };
            V::Str(Arc::new(c.to_string().into_bytes()))
        }
        (v @ V::Str(_), Ty::Str) => v,
        // string([]byte): the bytes of the slice (spec: Conversions to and from a string type)
        (V::Slice(None), Ty::Str) => V::Str(Arc::new(Vec::new())),
        (V::Slice(Some(sl)), Ty::Str) => {
            let b = sl.backing.lock().unwrap();
            let mut bytes = Vec::with_capacity(sl.len);
            for e in &b[sl.off..sl.off + sl.len] {
                match e {
                    V::Int(_, x) => bytes.push(*x as u8),
                    _ => return unsup("string(slice) of non-bytes"),
                }
            }
            V::Str(Arc::new(bytes))
        }
        (v @ V::Bool(_), Ty::Bool) => v,
        (v, _) => v,
    })
}

fn binop(op: BinOp, a: V, b: V, types: &HashMap<String, TypeDef>) -> R<V> {
    use BinOp::*;
    Ok(match (a, b) {
        (V::Int(k, x), V::Int(_, y)) => match op {
            Add => V::Int(k, k.wrap(x + y)),
            Sub => V::Int(k, k.wrap(x - y)),
            Mul => V::Int(k, k.wrap(x * y)),
            Div => {
                if y == 0 {
                    return Err(Stop::Panic(PanicKind::DivZero));
                }
                V::Int(k, k.wrap(x / y))
            }
            Rem => {
                if y == 0 {
                    return Err(Stop::Panic(PanicKind::DivZero));
                }
                V::Int(k, k.wrap(x % y))
            }
            Lt => V::Bool(x < y),
            Le => V::Bool(x <= y),
            Gt => V::Bool(x > y),
            Ge => V::Bool(x >= y),
            Eq => V::Bool(x == y),
            Ne => V::Bool(x != y),
            And | Or => return unsup("logic on ints"),
        },
        (V::F32(x), V::F32(y)) => match op {
            Add => V::F32(x + y),
            Sub => V::F32(x - y),
            Mul => V::F32(x * y),
            Div => V::F32(x / y),
            Lt => V::Bool(x < y),
            Le => V::Bool(x <= y),
            Gt => V::Bool(x > y),
            Ge => V::Bool(x >= y),
            Eq => V::Bool(x == y),
            Ne => V::Bool(x != y),
            _ => return unsup("float op"),
        },
        (V::F64(x), V::F64(y)) => match op {
            Add => V::F64(x + y),
            Sub => V::F64(x - y),
            Mul => V::F64(x * y),
            Div => V::F64(x / y),
            Lt => V::Bool(x < y),
            Le => V::Bool(x <= y),
            Gt => V::Bool(x > y),
            Ge => V::Bool(x >= y),
            Eq => V::Bool(x == y),
            Ne => V::Bool(x != y),
            _ => return unsup("float op"),
        },
        (V::Str(x), V::Str(y)) => match op {
            Add => {
                let mut v = (*x).clone();
                v.extend_from_slice(&y);
                V::Str(Arc::new(v))
            }
            Lt => V::Bool(x < y),
            Le => V::Bool(x <= y),
            Gt => V::Bool(x > y),
            Ge => V::Bool(x >= y),
            Eq => V::Bool(x == y),
            Ne => V::Bool(x != y),
            _ => return unsup("string op"),
        },
        (a, b) => match op {
            Eq => V::Bool(go_eq(&a, &b, types).map_err(Stop::Panic)?),
            Ne => V::Bool(!go_eq(&a, &b, types).map_err(Stop::Panic)?),
            _ => return unsup("binary operator on unsupported operands"),
        },
    })
}

/// Default sequential host: a spawned goroutine is queued and run to completion at the next
/// loop back-edge of the spawner (a legal schedule whenever goroutines do not wait for each
/// other); goroutines still pending when main returns are discarded, as in Go.
pub struct SeqHost {
    pending: Vec<(V, Vec<V>)>,
    pub spawned: u64,
    pub ran: u64,
}

impl SeqHost {
    pub fn new() -> SeqHost {
        SeqHost {
            pending: Vec::new(),
            spawned: 0,
            ran: 0,
        }
    }
}

impl Host for SeqHost {
    fn yield_point(&mut self, it: &mut Interp, kind: YieldKind) -> R<()> {
        if kind == YieldKind::BackEdge && !self.pending.is_empty() {
            let (f, args) = self.pending.remove(0);
            self.ran += 1;
            // run on a fresh frame stack position; nested yields see an empty host (no re-entrancy)
            let saved = std::mem::take(&mut it.frames);
            let r = it.call_value(f, args);
            it.frames = saved;
            match r {
                Ok(_) => {}
                Err(e) => return Err(e),
            }
        }
        Ok(())
    }
    fn spawn(&mut self, _it: &mut Interp, callee: V, args: Vec<V>) -> R<()> {
        self.spawned += 1;
        self.pending.push((callee, args));
        Ok(())
    }
}

pub fn run_main(prog: Arc<Program>, fuel: u64) -> RunResult {
    let mut it = Interp::new(prog.clone(), fuel);
    it.host = Some(Box::new(SeqHost::new()));
    if !prog.foreign_imports.is_empty() {
        return RunResult {
            stdout: vec![],
            stderr: vec![],
            end: End::Unsupported(format!("foreign imports {:?}", prog.foreign_imports)),
            steps: 0,
        };
    }
    let r = it.call_func("main", vec![]);
    let end = match r {
        Ok(_) => End::Ok,
        Err(Stop::Panic(k)) => End::Panic(k),
        Err(Stop::Fuel) => End::Fuel,
        Err(Stop::Unsupported(s)) => End::Unsupported(s),
        Err(Stop::Killed) => End::Ok,
    };
    let o = it.out.lock().unwrap();
    let mut stderr = o.1.clone();
    if let End::Panic(k) = &end {
        stderr.extend_from_slice(panic_text(k).as_bytes());
    }
    RunResult {
        stdout: o.0.clone(),
        stderr,
        end,
        steps: it.steps,
    }
}

pub fn panic_text(k: &PanicKind) -> String {
    match k {
        PanicKind::DivZero => "panic: runtime error: integer divide by zero\n".into(),
        PanicKind::Index => "panic: runtime error: index out of range\n".into(),
        PanicKind::NilDeref => "panic: runtime error: invalid memory address or nil pointer dereference\n".into(),
        PanicKind::Assert => "panic: interface conversion\n".into(),
        PanicKind::Uncomparable => "panic: runtime error: comparing uncomparable type\n".into(),
        PanicKind::Explicit(m) => format!("panic: {}\n", m),
    }
}

#[allow(dead_code)]
fn _unused(_: HashMap<u8, u8>) {}
