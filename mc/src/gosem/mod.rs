pub mod check;
pub mod fmt;
pub mod rat;
pub mod run;
pub mod syntax;
pub mod table;

use std::sync::Arc;

#[derive(Debug, Clone)]
pub enum GoVerdict {
    /// parses and type-checks
    Ok(Arc<check::Program>),
    /// Go would reject: (rule, line, message)*
    Rejected(Vec<check::GoError>),
    /// outside the modelled subset (machinery)
    Unsupported(String),
}

impl std::fmt::Debug for check::Program {
    fn fmt(&self, f: &mut std::fmt::Formatter<'_>) -> std::fmt::Result {
        write!(f, "Program")
    }
}

pub fn analyse(text: &str) -> GoVerdict {
    match syntax::parse(text) {
        Err(syntax::ParseError::Syntax { line, msg }) => GoVerdict::Rejected(vec![check::GoError {
            rule: "syntax",
            line,
            msg,
        }]),
        Err(syntax::ParseError::Unsupported { line, msg }) => GoVerdict::Unsupported(format!("line {}: {}", line, msg)),
        Ok(file) => match check::check(file) {
            Ok(p) => GoVerdict::Ok(Arc::new(p)),
            Err(errs) => {
                if let Some(e) = errs.iter().find(|e| e.rule.starts_with("unsupported")) {
                    GoVerdict::Unsupported(format!("line {}: {}", e.line, e.msg))
                } else {
                    GoVerdict::Rejected(errs)
                }
            }
        },
    }
}
