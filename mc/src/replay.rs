//! `gomlmc replay <file>`: re-run one recorded violation without the explorer.

use crate::oracle::*;
use serde_json::Value;
use std::path::Path;

pub fn replay(path: &str) -> i32 {
    let text = match std::fs::read_to_string(path) {
        Ok(t) => t,
        Err(e) => {
            eprintln!("cannot read {}: {}", path, e);
            return 2;
        }
    };
    let v: Value = serde_json::from_str(&text).expect("replay file is JSON");
    let first = if v.get("first").is_some() { v["first"].clone() } else { v.clone() };
    let r = if first.get("replay").is_some() { first["replay"].clone() } else { first.clone() };
    println!("property={} class={} site={}", v["property"], v["class"], v["site"]);
    let scratch = Scratch::new("replay");
    let _ = std::env::set_current_dir(&scratch.empty);
    let kind = r["kind"].as_str().unwrap_or("");
    let source = r.get("source").or(r.get("text")).and_then(|s| s.as_str()).map(|s| s.to_string());
    match kind {
        "query" => {
            let (t, line, col) = (r["text"].as_str().unwrap_or(""), r["line"].as_u64().unwrap_or(0) as u32, r["col"].as_u64().unwrap_or(0) as u32);
            let p = Path::new("dummy");
            println!("request {} at {}:{} on {:?}", r["request"], line, col, t.chars().take(80).collect::<String>());
            match r["request"].as_str().unwrap_or("") {
                "hover" => println!("hover -> {:?}", compiler::query::hover_type(p, t, line, col)),
                "dot" => println!("dot -> {:?}", compiler::query::dot_completions(p, t, line, col)),
                _ => println!("colon -> {:?}", compiler::query::colon_colon_completions(p, t, line, col)),
            }
            0
        }
        "query-history" => {
            // replay the recorded history in this thread against a real directory, then ask the last
            // question again from a fresh thread in a directory that only ever held the final contents
            let root = scratch.fresh_dir("hist");
            let (mut lib, mut sib) = (0usize, 0usize);
            crate::families::queryhist::write_disk(&root, lib, sib);
            let mut last = (String::new(), String::new(), String::new());
            for ev in r["history"].as_array().cloned().unwrap_or_default() {
                let ev = ev.as_str().unwrap_or("").to_string();
                if let Some(rest) = ev.strip_prefix("write(") {
                    let v = if rest.ends_with("B)") { 1 } else { 0 };
                    if rest.starts_with("Lib/") { lib = v } else { sib = v }
                    crate::families::queryhist::write_disk(&root, lib, sib);
                    println!("{}", ev);
                } else if let Some(rest) = ev.strip_prefix("ask(") {
                    let key = rest.trim_end_matches(')');
                    let marked = r["texts"][key].as_str().unwrap_or("").to_string();
                    let kind = key.split('/').next().unwrap_or("").to_string();
                    let got = crate::families::queryhist::ask(&root, &kind, &marked);
                    println!("{} -> {}", ev, got);
                    last = (kind, marked, got);
                }
            }
            let fresh_dir = scratch.fresh_dir("fresh");
            crate::families::queryhist::write_disk(&fresh_dir, lib, sib);
            let (k, m) = (last.0.clone(), last.1.clone());
            let fresh = std::thread::spawn(move || crate::families::queryhist::ask(&fresh_dir, &k, &m)).join().unwrap_or_default();
            println!("fresh thread, same contents -> {}", fresh);
            if fresh != last.2 {
                println!("REPRODUCED: the answer depends on the history");
                return 1;
            }
            0
        }
        "schedules" => {
            // one recorded schedule of the emitted Go, re-run twice under the controlled scheduler, without the explorer
            let src = source.clone().unwrap_or_default();
            println!("--- source\n{}", src);
            let path = scratch.single_path();
            let comp = match compiler::pipeline::pipeline::compile(&path, &src) {
                Ok(c) => c,
                Err(e) => {
                    println!("--- compile: rejected: {:?}", e.diagnostics().iter().map(|d| d.message().to_string()).collect::<Vec<_>>());
                    return 0;
                }
            };
            let go = comp.go.to_pretty(&comp.goenv, 120);
            let gp = match crate::gosem::analyse(&go) {
                crate::gosem::GoVerdict::Ok(p) => p,
                other => {
                    println!("--- emitted Go is not runnable: {:?}", other);
                    return 1;
                }
            };
            let sched: Vec<usize> = r["go_schedule_witness"].as_array().map(|a| a.iter().map(|x| x.as_u64().unwrap_or(0) as usize).collect()).unwrap_or_default();
            let show = |res: &crate::gosem::run::RunResult| format!("{:?}/{:?}", String::from_utf8_lossy(&res.stdout), res.end);
            let (a, ta, _) = crate::sched::go_side::run_with_schedule(gp.clone(), 200_000, &sched);
            let (b, tb, _) = crate::sched::go_side::run_with_schedule(gp.clone(), 200_000, &sched);
            println!("--- schedule {:?} ({} choice points): {}", sched, ta.len(), show(&a));
            if show(&a) != show(&b) || ta.len() != tb.len() {
                println!("machinery: the same schedule gave two observations: {}", show(&b));
                return 2;
            }
            println!("--- outcomes of the reference semantics over all schedules (recorded): {}", r["ref_outcomes"]);
            println!("--- outcomes of the emitted Go over all schedules (recorded): {}", r["go_outcomes"]);
            let o = crate::oracle::obs_of_go(&a);
            let key = format!("{:?}/{}", crate::families::common::lossy(&o.stdout), crate::families::common::end_tag(&o.end));
            let in_ref = r["ref_outcomes"].as_array().map(|x| x.iter().any(|y| y.as_str() == Some(key.as_str()))).unwrap_or(false);
            if !in_ref {
                println!("REPRODUCED: {} is an observation of the emitted Go that no schedule of the source program has", key);
                return 1;
            }
            0
        }
        "determinism-history" => {
            // a fresh process compiles the projects of the history one after the other; another one compiles only the last
            let idxs: Vec<String> = r["indices"].as_array().map(|a| a.iter().filter_map(|i| i.as_u64()).map(|i| i.to_string()).collect()).unwrap_or_default();
            let Some(last) = idxs.last().cloned() else {
                println!("{}", serde_json::to_string_pretty(&r).unwrap());
                return 0;
            };
            let exe = std::env::current_exe().unwrap();
            let run = |args: &[String]| -> String {
                let mut a = vec!["det-seq".to_string()];
                a.extend(args.iter().cloned());
                std::process::Command::new(&exe).args(&a).output().map(|o| String::from_utf8_lossy(&o.stdout).trim().to_string()).unwrap_or_default()
            };
            let (warm, fresh) = (run(&idxs), run(&[last]));
            println!("history {:?} ({}): digest of the last project {} ; compiled alone {}", idxs, r["projects"], warm, fresh);
            if warm != fresh {
                println!("REPRODUCED: what the process compiled before changes what it produces");
                return 1;
            }
            0
        }
        "cli-rebuild" => {
            // the whole history again through the goml binary (GOMLMC_CLI is set by ./check for C04 / C14 / C15)
            let case = serde_json::json!({"kind": "rebuild", "graph": r["graph"], "edit": r["edit"], "variant": r["variant"]});
            let Some(fam) = crate::families::by_name("cli") else { return 2 };
            let mut ctx = crate::drive::Ctx { scratch: Scratch::new("replay-cli"), tier: crate::drive::Tier::Quick };
            let rep = fam.run(&case, &mut ctx);
            println!("tags: {:?}", rep.tags);
            for f in &rep.findings {
                println!("REPRODUCED: {} {} {}\n  {}", f.property, f.class, f.site, f.detail);
            }
            if rep.findings.is_empty() { 0 } else { 1 }
        }
        "project" | "determinism" => {
            let files: Vec<(String, String)> = r["files"].as_array().map(|a| a.iter().map(|f| (f[0].as_str().unwrap_or("").to_string(), f[1].as_str().unwrap_or("").to_string())).collect()).unwrap_or_default();
            let proj = crate::projects::Project { name: "replay".into(), files, expected_stdout: None };
            let root = scratch.fresh_dir("proj");
            let order: Vec<usize> = (0..proj.files.len()).collect();
            crate::projects::materialize(&root, &proj, &order);
            let (w, _) = crate::projects::whole(&root);
            match &w {
                crate::projects::Built::Ok { go } => println!("whole-program compile ok; run: {:?}", crate::projects::run_go(go, 3_000_000).map(|o| String::from_utf8_lossy(&o.stdout).into_owned())),
                other => println!("whole-program compile: {:?}", other),
            }
            let pkgs = crate::projects::packages(&proj);
            for order in crate::projects::topo_orders(&pkgs) {
                let s = crate::projects::separate(&root, &scratch.fresh_dir("out"), &pkgs, &order, false);
                match &s.built {
                    crate::projects::Built::Ok { go } => println!("separate {:?}: ok; run: {:?}", order, crate::projects::run_go(go, 3_000_000).map(|o| String::from_utf8_lossy(&o.stdout).into_owned())),
                    other => println!("separate {:?}: {:?}", order, other),
                }
            }
            0
        }
        _ => {
            let Some(src) = source else {
                println!("{}", serde_json::to_string_pretty(&r).unwrap());
                return 0;
            };
            println!("--- source\n{}", src);
            for (c, d) in crate::families::text::check_lossless(&src) {
                println!("lossless oracle: {} {}", c, d);
            }
            // `//// FILE <relative path>` starts another file of the project (the first part is main.gom)
            let (path, src) = if src.contains("//// FILE ") {
                let root = scratch.fresh_dir("multi");
                let mut parts = src.split("//// FILE ");
                let main_text = parts.next().unwrap_or("").to_string();
                for part in parts {
                    let (rel, body) = part.split_once('\n').unwrap_or((part, ""));
                    let p = root.join(rel.trim());
                    std::fs::create_dir_all(p.parent().unwrap()).ok();
                    std::fs::write(&p, body).ok();
                }
                let mp = root.join("main.gom");
                std::fs::write(&mp, &main_text).ok();
                (mp, main_text)
            } else {
                (scratch.single_path(), src)
            };
            match compiler::pipeline::pipeline::compile(&path, &src) {
                Err(e) => {
                    println!("--- compile: rejected: {:?}", e.diagnostics().iter().map(|d| d.message().to_string()).collect::<Vec<_>>());
                    0
                }
                Ok(c) => {
                    let go = c.go.to_pretty(&c.goenv, 120);
                    let gr = analyse_and_run(go.clone(), 80_000_000);
                    match (&gr.verdict, &gr.run) {
                        (crate::gosem::GoVerdict::Ok(_), Some(run)) => {
                            println!("--- emitted Go runs: stdout {:?} end {:?}", String::from_utf8_lossy(&run.stdout), run.end);
                            if let Some(exp) = r.get("expected") {
                                println!("--- expected: {}", exp);
                                let want = exp.get("stdout").and_then(|s| s.as_str()).map(|s| s.to_string()).or(exp.as_str().map(|s| s.to_string()));
                                if let Some(w) = want {
                                    if w.as_bytes() != &run.stdout[..] {
                                        println!("REPRODUCED: output differs");
                                        return 1;
                                    }
                                }
                            }
                            0
                        }
                        (crate::gosem::GoVerdict::Rejected(errs), _) => {
                            println!("--- emitted Go is invalid: {:?}", &errs[..errs.len().min(3)]);
                            println!("{}", go);
                            1
                        }
                        (v, _) => {
                            println!("--- go model: {:?}", v);
                            2
                        }
                    }
                }
            }
        }
    }
}
