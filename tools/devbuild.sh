#!/bin/bash
# tools/devbuild.sh : build the harness from /verif/mc's sources against a clean scratch worktree of /repo's HEAD
# (/tmp/dev/repo), so that development can go on while a seeded change is applied to /repo itself.
# Only the cargo path dependencies move; data the harness reads from /repo (recorded goldens) is not source.
set -u
D=/tmp/dev
[ -d $D/repo ] || git -C /repo worktree add -q --detach $D/repo HEAD
rsync -a --delete ${VERIF_SRC:-/verif}/mc/ $D/mc/ --exclude target
sed -i "s#/repo/crates#$D/repo/crates#" $D/mc/Cargo.toml
cd $D/mc && RUSTFLAGS="${DEVFLAGS:-}" CARGO_NET_OFFLINE=true CARGO_TARGET_DIR=$D/target${DEVFLAGS:+-hooks} cargo build --release --offline 2>&1 | grep -E "^error" -A12 | head -60
echo "dev binary: $D/target${DEVFLAGS:+-hooks}/release/gomlmc"
