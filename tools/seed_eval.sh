#!/bin/bash
# tools/seed_eval.sh <seed-name> <tier> <check ids...>
# Applies /verif/seeded/<seed-name>/patch.diff to /repo, runs the given checks, records each
# verdict in /verif/seeded/<seed-name>/results.txt, and always restores /repo afterwards.
set -u
name=$1; tier=$2; shift 2
dir=/verif/seeded/$name
[ -f "$dir/patch.diff" ] || { echo "no $dir/patch.diff"; exit 2; }
if ! git -C /repo diff --quiet; then echo "/repo working tree is dirty"; exit 2; fi
git -C /repo apply "$dir/patch.diff" || { echo "patch does not apply"; exit 2; }
trap 'git -C /repo checkout -- . ; git -C /repo clean -fdq -- crates >/dev/null 2>&1' EXIT
for c in "$@"; do
  out=$(${VERIF_CHECK:-/verif/check} "$c" --tier "$tier" 2>&1); rc=$?
  nv=$(echo "$out" | grep -c '^VIOLATION')
  first=$(echo "$out" | grep -A1 '^VIOLATION' | sed -n 2p | cut -c1-260)
  echo "$(date -u +%FT%TZ) seed=$name check=$c tier=$tier exit=$rc violations=$nv :: $first" | tee -a "$dir/results.txt"
done
