#!/bin/bash
# Background use only (vp run --with-repo -- ./tools/thorough_all.sh [ids...]): runs thorough tiers sequentially from the
# snapshot with its own target base; builds against the snapshot of /repo's HEAD so that seeded patches applied
# to /repo meanwhile are not picked up. Its logs are not evidence.
if [ -n "${VP_RUN_REPO:-}" ]; then sed -i "s#/repo/crates#$VP_RUN_REPO/crates#" mc/Cargo.toml; fi
export GOMLMC_TARGET_BASE=$PWD/.tb/t
mkdir -p $PWD/.tb
ids="$@"; [ -z "$ids" ] && ids=$(seq -w 1 20 | sed 's/^/C/')
for c in $ids; do s=$(date +%s); ./check $c --tier thorough > $c.thorough.log 2>&1; rc=$?; e=$(date +%s); echo "$c rc=$rc t=$((e-s))s viol=$(grep -c ^VIOLATION $c.thorough.log) known=$(grep -c ^KNOWN-FINDING $c.thorough.log) :: $(tail -1 $c.thorough.log | cut -c1-200)"; done
