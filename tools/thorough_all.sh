#!/bin/bash
# run all thorough tiers sequentially from the snapshot, own target base
export GOMLMC_TARGET_BASE=/root/.vp/runs/tb/t
mkdir -p /root/.vp/runs/tb
for i in $(seq -w 1 20); do s=$(date +%s); ./check C$i --tier thorough > C$i.thorough.log 2>&1; rc=$?; e=$(date +%s); echo "C$i rc=$rc t=$((e-s))s viol=$(grep -c ^VIOLATION C$i.thorough.log) known=$(grep -c ^KNOWN-FINDING C$i.thorough.log) :: $(tail -1 C$i.thorough.log | cut -c1-200)"; done
