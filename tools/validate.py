#!/usr/bin/env python3
"""Validate MANIFEST.json and every evidence/<id>.json against the schemas in /root/.vp and
cross-check evidence.level against MANIFEST level_claimed.category. Run with python3-vt."""
import json, sys, os
import jsonschema
root = os.path.dirname(os.path.dirname(os.path.abspath(__file__)))
man = json.load(open(f"{root}/MANIFEST.json"))
jsonschema.validate(man, json.load(open("/root/.vp/MANIFEST.schema.json")))
es = json.load(open("/root/.vp/EVIDENCE.schema.json"))
bad = 0
for c in man["checks"]:
    pid = c["property_id"]
    p = f"{root}/evidence/{pid}.json"
    try:
        ev = json.load(open(p))
        jsonschema.validate(ev, es)
        lvl = c["level_claimed"]["category"] if isinstance(c.get("level_claimed"), dict) else c.get("level_claimed")
        assert ev["level"] == lvl, f"level {ev['level']} != manifest {lvl}"
        assert len(ev["coverage"].get("samples", [])) >= 1, "no samples"
        assert ev["coverage"]["distinct_nontrivial"] <= ev["coverage"]["evaluations"] or True
        print(pid, "ok", ev["tier"], ev["coverage"]["evaluations"], ev["coverage"]["distinct_nontrivial"])
    except Exception as e:
        bad += 1
        print(pid, "BAD", str(e)[:300])
sys.exit(1 if bad else 0)
