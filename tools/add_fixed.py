#!/usr/bin/env python3
"""tools/add_fixed.py <id> <props comma> <commit> <what...> : append a 'fixed' entry to known_findings.json"""
import json, sys
fid, props, commit = sys.argv[1], sys.argv[2].split(','), sys.argv[3]
what = ' '.join(sys.argv[4:])
p = '/verif/known_findings.json'
d = json.load(open(p))
assert not any(e['id'] == fid for e in d['findings']), 'duplicate id'
d['findings'].append({"id": fid, "status": "fixed", "properties": props, "commit": commit,
  "fixed_line": f"fixed: property={props[0]} {commit} {what}", "classes": [], "site_all": [], "what": what})
json.dump(d, open(p, 'w'), indent=1, ensure_ascii=False)
print('added', fid)
