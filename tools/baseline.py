#!/usr/bin/env python3
"""Run the repository's test suite (guard OFF) and compare with the 59 stable tests of BASELINE.json."""
import json, re, subprocess, sys, os
base = json.load(open('/root/.vp/BASELINE.json'))
want = set(base['stable_pass'])
env = dict(os.environ); env.pop('RUSTFLAGS', None); env['CARGO_NET_OFFLINE'] = 'true'
p = subprocess.run(['cargo', 'test', '--workspace', '--no-fail-fast', '--offline'], cwd=(sys.argv[1] if len(sys.argv) > 1 else '/repo'), env=env, stdout=subprocess.PIPE, stderr=subprocess.STDOUT, text=True)
out = p.stdout
crate = None; passed = set(); failed = set()
for line in out.splitlines():
    m = re.search(r'Running (?:unittests )?(\S+) \(target/\S+/deps/([A-Za-z0-9_]+)-[0-9a-f]+\)', line)
    if m:
        src, dep = m.group(1), m.group(2)
        if src.startswith('src/'):
            crate = dep
        else:
            # integration test: <crate>::<file stem>; crate is recovered from the baseline names
            crate = None
            stem = dep
            for w in want:
                parts = w.split('::')
                if len(parts) >= 2 and parts[1] == stem:
                    crate = parts[0] + '::' + stem
            if crate is None:
                crate = 'compiler::' + stem
        continue
    m = re.match(r'test (\S+) \.\.\. (ok|FAILED|ignored)', line)
    if m and crate:
        name = crate + '::' + m.group(1)
        (passed if m.group(2) == 'ok' else failed).add(name)
missing = sorted(want - passed)
print(f"stable baseline: {len(want)}; passed now: {len(want & passed)}; missing: {len(missing)}")
for m in missing: print("  NOT PASSING:", m)
sys.exit(0 if not missing else 1)
