#!/bin/bash
# tools/seed_process.sh <ID> <name> <tier> <checks...> : copy SEED from the worktree, verify, evaluate
id=$1; nm=$2; tier=$3; shift 3
mkdir -p /verif/seeded/$nm; cp /tmp/seed/$id/SEED/* /verif/seeded/$nm/
echo "== $nm"
/verif/tools/seed_verify.sh /tmp/seed/$id 2>&1 | tail -9 | tee /verif/seeded/$nm/verify.txt
/verif/tools/seed_eval.sh $nm $tier "$@"
