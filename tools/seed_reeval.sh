#!/bin/bash
# tools/seed_reeval.sh [seed names...] : re-evaluate kept seeded changes against the current checks without touching
# /repo or /verif's build: works in a scratch worktree of /repo's HEAD and a copy of the harness under /tmp/reval.
# For each seed the quick check of its own property is run; results go to /tmp/reval/results.txt
# (seed, property, applies?, exit, violations).
set -u
R=/tmp/reval
mkdir -p $R/root/evidence
[ -d $R/repo ] && git -C /repo worktree remove --force $R/repo
git -C /repo worktree add --detach $R/repo HEAD >/dev/null 2>&1
rsync -a --delete /verif/mc/ $R/mc/ --exclude target
sed -i "s#/repo/crates#$R/repo/crates#" $R/mc/Cargo.toml
cp /verif/known_findings.json /verif/undecided_allow.json $R/root/
export CARGO_NET_OFFLINE=true
names="$@"; [ -z "$names" ] && names=$(ls /verif/seeded | grep -v "\.txt$")
: > $R/results.txt
for n in $names; do
  d=/verif/seeded/$n
  [ -f $d/patch.diff ] || continue
  prop=$(python3 -c "import json;print(json.load(open('$d/meta.json'))['property'])" 2>/dev/null || echo "")
  [ -z "$prop" ] && continue
  if ! git -C $R/repo apply --check $d/patch.diff 2>/dev/null; then echo "$n $prop applies=no" | tee -a $R/results.txt; continue; fi
  git -C $R/repo apply $d/patch.diff
  flags=""; tgt=$R/target; case "$prop" in C13|C16) flags="--cfg goml_verif"; tgt=$R/target-hooks;; esac
  ( cd $R/mc && RUSTFLAGS="$flags" CARGO_TARGET_DIR=$tgt cargo build --release --offline -q 2>$R/build.log )
  if [ $? -ne 0 ]; then echo "$n $prop applies=yes build=failed" | tee -a $R/results.txt; git -C $R/repo checkout -- . ; git -C $R/repo clean -fdq; continue; fi
  case "$prop" in C04|C14|C15) ( cd $R/repo && CARGO_TARGET_DIR=$R/target-cli cargo build --release --offline -q -p compiler --bins 2>>$R/build.log ); export GOMLMC_CLI=$R/target-cli/release/compiler;; esac
  out=$( cd $R/root && $tgt/release/gomlmc check $prop quick $R/root 2>&1 ); rc=$?
  echo "$n $prop applies=yes exit=$rc violations=$(echo "$out" | grep -c '^VIOLATION')" | tee -a $R/results.txt
  git -C $R/repo checkout -- . ; git -C $R/repo clean -fdq
done
git -C /repo worktree remove --force $R/repo
