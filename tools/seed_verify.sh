#!/bin/bash
# tools/seed_verify.sh <worktree> : confirm a seeded change myself: builds, 59 baseline tests pass with it,
# the demonstration fails with it and passes without it.
set -u
wt=$1
cd "$wt" || exit 2
export CARGO_NET_OFFLINE=true
demo=$(ls crates/*/tests/seed_demo*.rs 2>/dev/null | head -1)
crate=$(echo "$demo" | cut -d/ -f2)
tname=$(basename "$demo" .rs)
echo "demo=$demo crate=$crate"
python3 /verif/tools/baseline.py "$wt" | tail -3
cargo test --offline -p "$crate" --test "$tname" 2>&1 | grep -E "^test result|^test .*(FAILED|ok)$" | head -12
echo "--- without patch"
git apply -R SEED/patch.diff || exit 2
cargo test --offline -p "$crate" --test "$tname" 2>&1 | grep -E "^test result" | head -3
git apply SEED/patch.diff
